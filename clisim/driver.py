#!/usr/bin/env python3
"""clisim — the real xq / xe binaries inside a simulated OS boundary (C17).

  driver.py build
  driver.py check --tier quick|thorough --seed N
  driver.py replay <plan file>

The binaries are built from /repo's working tree and run under an LD_PRELOAD shim (shim.c) that answers
read / write / open / stat on fd 0, 1, 2 and on one virtual document path from a plan.  One plan is one
exactly repeatable execution.  Cases (document, argv, expected result) come from `domsim gen-cli`.
"""
import concurrent.futures
import hashlib
import json
import os
import random
import re
import shutil
import subprocess
import sys
import threading
import time
import urllib.parse

HERE = os.path.dirname(os.path.abspath(__file__))
ROOT = os.path.dirname(HERE)
BUILD = os.path.join(ROOT, ".build")
SHIM = os.path.join(BUILD, "shim.so")
CLI_TARGET = os.path.join(BUILD, "cli")
DOMSIM = os.path.join(BUILD, "domsim", "release", "domsim")
REPLAYS = os.path.join(ROOT, "replays")
EVIDENCE = os.path.join(ROOT, "evidence")
KNOWN = os.path.join(ROOT, "known_findings.txt")
TMP = os.path.join(BUILD, "clisim")
WORKERS = int(os.environ.get("VERIF_WORKERS", "16"))
VDOC = "/sim/doc.xml"

ENV = dict(os.environ)
ENV["CARGO_NET_OFFLINE"] = "true"

QUICK_CASES = 1500
THOROUGH_CASES = 60000


def harness_error(msg):
    print("HARNESS-ERROR: " + msg)
    sys.exit(2)


def build(release=False):
    os.makedirs(BUILD, exist_ok=True)
    p = subprocess.run(["gcc", "-O1", "-shared", "-fPIC", "-o", SHIM, os.path.join(HERE, "shim.c"), "-ldl"], stdout=subprocess.PIPE, stderr=subprocess.PIPE, text=True)
    if p.returncode != 0:
        sys.stdout.write(p.stderr)
        harness_error("shim.c does not compile")
    env = dict(ENV)
    env["CARGO_TARGET_DIR"] = CLI_TARGET
    cmd = ["cargo", "build", "-p", "xml-xpath", "--examples", "--offline", "--quiet"]
    if release:
        cmd.append("--release")
    p = subprocess.run(cmd, cwd="/repo", env=env, stdout=subprocess.PIPE, stderr=subprocess.PIPE, text=True)
    if p.returncode != 0:
        sys.stdout.write(p.stderr[-4000:])
        harness_error("xq/xe do not build from /repo's working tree")
    p = subprocess.run(["cargo", "build", "--offline", "--quiet", "--release", "--target-dir", os.path.join(BUILD, "domsim")], cwd=os.path.join(ROOT, "domsim"), env=ENV, stdout=subprocess.PIPE, stderr=subprocess.PIPE, text=True)
    if p.returncode != 0:
        sys.stdout.write(p.stderr[-4000:])
        harness_error("domsim does not build")


def binary(tool, release=False):
    return os.path.join(CLI_TARGET, "release" if release else "debug", "examples", tool)


def dec(s):
    return "" if s == "%" else urllib.parse.unquote(s, errors="surrogateescape")


def enc(s):
    if s == "":
        return "%"
    out = []
    for b in s.encode("utf-8", "surrogateescape"):
        c = chr(b)
        if (b < 128 and c.isalnum()) or c in "-_.:/@*()[]|!<>?;#'\"+,&":
            out.append(c)
        else:
            out.append("%%%02X" % b)
    return "".join(out)


def load_cases(seed, start, count):
    p = subprocess.run([DOMSIM, "gen-cli", "--seed", str(seed), "--from", str(start), "--count", str(count)], stdout=subprocess.PIPE, stderr=subprocess.PIPE)
    if p.returncode != 0:
        harness_error("domsim gen-cli failed: " + p.stderr.decode()[-400:])
    cases = []
    for line in p.stdout.decode("utf-8").splitlines():
        if not line.startswith("case "):
            continue
        d = {}
        for tok in line.split(" ")[1:]:
            k, _, v = tok.partition("=")
            d[k] = v
        c = {
            "id": int(d["id"]),
            "tool": d["tool"],
            "argv": [dec(a) for a in d["argv"].split(",")] if d["argv"] else [],
            "doc": dec(d["doc"]).encode("utf-8", "surrogateescape"),
            "kind": d["kind"],
            "expect": dec(d["expect"]),
            "gate": "" if d["gate"] == "-" else d["gate"],
            "what": dec(d["what"]),
            "sel": dec(d.get("sel", "%")),
        }
        cases.append(c)
    return cases


class Plan:
    def __init__(self, case, doc=None, ins=None, outs=None, open_="ok", stat="real", oracle="O1", fault="none", argv=None):
        self.case = case
        self.doc = case["doc"] if doc is None else doc
        self.ins = ins or []
        self.outs = outs or []
        self.open = open_
        self.stat = stat
        self.oracle = oracle
        self.fault = fault
        self.argv = case["argv"] if argv is None else argv

    def uses_file(self):
        return VDOC in [a for a in self.argv if isinstance(a, str)]

    def text(self, cap_out, cap_err, trace):
        c = self.case
        lines = ["clisim-plan 1", "tool " + c["tool"]]
        lines.append("argv " + " ".join(enc(a) if isinstance(a, str) else "%%HEX" + a.hex() for a in self.argv))
        lines.append("docsrc file " + VDOC if self.uses_file() else "docsrc stdin")
        lines.append("docbytes " + self.doc.hex())
        lines.append("open " + self.open)
        lines.append("stat " + self.stat)
        lines.append("in " + " ".join(str(t) for t in self.ins))
        lines.append("out " + " ".join(str(t) for t in self.outs))
        lines.append("capture_out " + cap_out)
        lines.append("capture_err " + cap_err)
        lines.append("trace " + trace)
        lines.append("case id=%d kind=%s expect=%s sel=%s what=%s" % (c["id"], c["kind"], enc(c["expect"]), enc(c.get("sel", "")), enc(c["what"])))
        lines.append("casedoc " + c["doc"].hex())
        lines.append("caseargv " + " ".join(enc(a) for a in c["argv"]))
        lines.append("oracle %s fault=%s" % (self.oracle, self.fault))
        return "\n".join(lines) + "\n"

    def key(self):
        h = hashlib.sha1()
        h.update(repr((self.case["id"], self.argv, self.doc, self.ins, self.outs, self.open, self.stat)).encode("utf-8", "surrogateescape"))
        return h.hexdigest()


def execute(plan, workdir, release=False):
    os.makedirs(workdir, exist_ok=True)
    cap_out = os.path.join(workdir, "out")
    cap_err = os.path.join(workdir, "err")
    trace = os.path.join(workdir, "trace")
    planf = os.path.join(workdir, "plan")
    for f in (cap_out, cap_err, trace):
        try:
            os.remove(f)
        except FileNotFoundError:
            pass
    with open(planf, "w", encoding="utf-8", errors="surrogateescape") as f:
        f.write(plan.text(cap_out, cap_err, trace))
    env = dict(os.environ)
    env["LD_PRELOAD"] = SHIM
    env["SIM_PLAN"] = planf
    env["RUST_BACKTRACE"] = "0"
    args = [binary(plan.case["tool"], release)] + [a if isinstance(a, bytes) else a.encode("utf-8", "surrogateescape") for a in plan.argv]
    try:
        p = subprocess.run(args, env=env, stdin=subprocess.DEVNULL, stdout=subprocess.DEVNULL, stderr=subprocess.DEVNULL, timeout=30)
        rc = p.returncode
    except subprocess.TimeoutExpired:
        rc = "timeout"

    def rd(path):
        try:
            with open(path, "rb") as f:
                return f.read()
        except FileNotFoundError:
            return b""

    return {"rc": rc, "out": rd(cap_out), "err": rd(cap_err), "trace": rd(trace).decode("ascii", "replace")}


def strip_ws(canon):
    """canonical content modulo white space in text runs (for the indented output of xe)"""

    def fix(m):
        body = m.group(1)
        body = body.replace("\\t", "").replace("\\n", "").replace("\\r", "").replace(" ", "")
        return 'T("%s")' % body if body else ""

    return re.sub(r'T\("((?:[^"\\]|\\.)*)"\)', fix, canon)


def wrap_w(out):
    """the nodes xq printed, as the content of one element"""
    return b'<w xmlns:p="urn:p">' + out + b"</w>"


def canon_batch(items):
    """items: list of (key, bytes) -> {key: ("ok", canon) | ("err", msg)}"""
    if not items:
        return {}
    inp = "".join("%s %s\n" % (k, enc(b.decode("utf-8", "surrogateescape"))) for k, b in items)
    p = subprocess.run([DOMSIM, "canon-batch"], input=inp.encode("utf-8", "surrogateescape"), stdout=subprocess.PIPE, stderr=subprocess.PIPE)
    res = {}
    for line in p.stdout.decode("utf-8", "replace").splitlines():
        parts = line.split(" ", 2)
        if len(parts) == 3:
            res[parts[0]] = (parts[1], dec(parts[2]))
    return res


def o2(res):
    """never a crash on unusable input; a non-zero status comes with a message and without output"""
    rc = res["rc"]
    if rc == "timeout":
        return "the tool hangs (no exit within 30 s)"
    if rc < 0:
        return "the tool was killed by signal %d" % (-rc)
    if rc == 101 or b"panicked at" in res["err"]:
        return "the tool panicked: " + res["err"].decode("utf-8", "replace").strip().splitlines()[0][:200]
    if rc != 0:
        if not res["err"].strip():
            return "exit status %d without an error message" % rc
        if res["out"]:
            return "exit status %d but %d bytes were written to stdout" % (rc, len(res["out"]))
    return None


def o3(case, res, canon):
    """the semantic oracle on a fault-free execution"""
    kind = case["kind"]
    rc = res["rc"]
    if kind == "any":
        return None
    if kind == "fail":
        if rc == 0:
            return "unusable input (%s) accepted with status 0" % case["what"]
        return None
    if rc != 0:
        return "usable input (%s) ended with status %s: %s" % (case["what"], rc, res["err"].decode("utf-8", "replace").strip()[:200])
    if kind == "stdout":
        want = case["expect"].encode("utf-8", "surrogateescape")
        if res["out"] != want:
            return "xq printed %r but the selection (%s) serialises to %r" % (res["out"][:300], case["what"], want[:300])
        if case.get("sel") and canon is not None:
            # the printed text, read back, denotes the selected nodes of the generator's tree
            st, c = canon
            if st != "ok":
                return "the output of xq does not parse back: %s (output %r)" % (c[:200], res["out"][:300])
            wsel = case["sel"]
            if "--no-indent" not in case["argv"]:
                c, wsel = strip_ws(c), strip_ws(wsel)
            if c != wsel:
                return "xq (%s) printed text that denotes %s, the selected nodes are %s" % (case["what"], c[:400], wsel[:400])
        return None
    if kind in ("canon", "canonws"):
        if canon is None:
            return "no canonical form available"
        st, c = canon
        if st != "ok":
            return "the output of xe does not parse back: %s (output %r)" % (c[:200], res["out"][:300])
        want = case["expect"]
        if kind == "canonws":
            c, want = strip_ws(c), strip_ws(want)
        if c != want:
            return "xe (%s) produced %s, expected %s" % (case["what"], c[:400], want[:400])
        return None
    return None


def fault_plans(case, rng, base):
    """the fault and schedule space of one case"""
    plans = []
    doc = case["doc"]
    n = len(doc)
    outlen = len(base["out"])

    def benign_in():
        toks = []
        pos = 0
        while pos < n and len(toks) < 150:
            r = rng.random()
            if r < 0.2:
                toks.append("EINTR")
            else:
                k = rng.choice([1, 1, 2, 3, 7, 16, 64, 4096])
                toks.append(k)
                pos += k
        return toks

    def benign_out():
        toks = []
        pos = 0
        while pos < outlen and len(toks) < 150:
            r = rng.random()
            if r < 0.2:
                toks.append("EINTR")
            else:
                k = rng.choice([1, 1, 2, 5, 13, 100, 4096])
                toks.append(k)
                pos += k
        return toks

    # benign delivery schedules (O1)
    plans.append(Plan(case, ins=benign_in(), outs=benign_out(), stat=rng.choice(["real", "zero", "double"]), oracle="O1", fault="benign_schedule"))
    r = rng.random()
    if r < 0.25 and n > 1:
        # producer died mid-stream: EOF after k bytes — the truncated bytes are just another input
        k = rng.randrange(0, n)
        plans.append(Plan(case, doc=doc[:k], oracle="O2T", fault="truncated_input"))
    elif r < 0.45 and n > 0:
        b = bytearray(doc)
        i = rng.randrange(0, n)
        if rng.random() < 0.5:
            b[i] ^= 1 << rng.randrange(0, 8)
        else:
            b[i] = rng.choice([0x00, 0x3C, 0x26, 0xFF, 0xC3, 0x80, 0x3E, 0x22])
        plans.append(Plan(case, doc=bytes(b), oracle="O2T", fault="corrupted_input"))
    elif r < 0.6:
        k = rng.randrange(0, max(1, n))
        ins = ([k] if k > 0 else []) + ["EIO"]
        plans.append(Plan(case, ins=ins, oracle="O2F", fault="read_fails"))
    elif r < 0.7 and VDOC in case["argv"]:
        plans.append(Plan(case, open_=rng.choice(["ENOENT", "EACCES", "EISDIR", "EMFILE", "EIO"]), oracle="O2F", fault="open_fails"))
    elif r < 0.9 and outlen > 0:
        k = rng.randrange(0, outlen)
        outs = ([k] if k > 0 else []) + [rng.choice(["ENOSPC", "EPIPE", "EIO", "ZERO"])]
        plans.append(Plan(case, outs=outs, oracle="O4", fault="write_fails"))
    else:
        # a non-UTF-8 argument
        argv = list(case["argv"])
        i = rng.randrange(0, len(argv)) if argv else 0
        if argv:
            argv[i] = b"\xff\xfe" + argv[i].encode("utf-8", "surrogateescape")
            plans.append(Plan(case, argv=argv, oracle="O2", fault="non_utf8_argv"))
    return plans


def judge(plan, res, base, tbase=None):
    """returns a violation string or None for one faulted execution"""
    o = plan.oracle
    if o == "O1":
        if (res["rc"], res["out"], res["err"]) != (base["rc"], base["out"], base["err"]):
            return "schedule dependence: with chunked/interrupted I/O the tool gave status %s, %d bytes out, but %s, %d bytes with plain delivery" % (res["rc"], len(res["out"]), base["rc"], len(base["out"]))
        return None
    if o in ("O2", "O2T"):
        return o2(res)
    if o == "O2F":
        v = o2(res)
        if v:
            return v
        if res["rc"] == 0:
            return "the input could not be read (%s) but the tool ended with status 0" % plan.fault
        return None
    if o == "O4":
        if res["rc"] == "timeout":
            return "the tool hangs when stdout fails"
        if isinstance(res["rc"], int) and res["rc"] < 0:
            return "the tool was killed by signal %d when stdout failed" % (-res["rc"])
        if not base["out"].startswith(res["out"]):
            return "bytes accepted before the write failure are not a prefix of the fault-free output"
        if res["rc"] == 0 and len(res["out"]) < len(base["out"]):
            return "stdout failed after %d of %d bytes but the tool ended with status 0: it did not print the selection and says it did" % (len(res["out"]), len(base["out"]))
        return None
    return None


def run_case(args):
    case, seed, wid, release = args
    rng = random.Random((seed << 20) ^ case["id"])
    wd = os.path.join(TMP, "t%d" % threading.get_ident())
    out = {"id": case["id"], "execs": 0, "faults": {}, "viol": [], "recorded": {}, "need_canon": None, "base": None, "plans": 0, "keys": []}
    base = execute(Plan(case, oracle="O3", fault="none"), wd, release)
    out["execs"] += 1
    out["base"] = base
    v = o2(base)
    if v:
        out["viol"].append((Plan(case, oracle="O2", fault="none"), v))
        return out
    if case["kind"] in ("canon", "canonws") and base["rc"] == 0:
        out["need_canon"] = base["out"]
    elif case["kind"] == "stdout" and case.get("sel") and base["rc"] == 0:
        out["need_canon"] = wrap_w(base["out"])
    elif case["kind"] != "any":
        v = o3(case, base, None)
        if v:
            out["viol"].append((Plan(case, oracle="O3", fault="none"), v))
            return out
    for plan in fault_plans(case, rng, base):
        res = execute(plan, wd, release)
        out["execs"] += 1
        out["faults"][plan.fault] = out["faults"].get(plan.fault, 0) + 1
        out["keys"].append(plan.key())
        if "EINTR" in plan.ins or "EINTR" in plan.outs:
            out["faults"]["EINTR_injected"] = out["faults"].get("EINTR_injected", 0) + 1
        v = judge(plan, res, base)
        if v:
            out["viol"].append((plan, v))
            continue
        if plan.oracle == "O2T":
            # the damaged input under a benign schedule must behave like the damaged input delivered plainly
            p2 = Plan(case, doc=plan.doc, ins=[1, "EINTR", 3, 1, "EINTR", 2, 5, 64], outs=[1, "EINTR", 2, 7], oracle="O1", fault=plan.fault + "+schedule")
            r2 = execute(p2, wd, release)
            out["execs"] += 1
            out["keys"].append(p2.key())
            v = judge(p2, r2, res)
            if v:
                out["viol"].append((p2, v))
        if plan.oracle == "O4":
            if res["rc"] == 0 and len(res["out"]) < len(base["out"]):
                out["recorded"]["exit0_with_lost_output"] = out["recorded"].get("exit0_with_lost_output", 0) + 1
            if res["rc"] == 101 or b"panicked at" in res["err"]:
                out["recorded"]["panic_on_write"] = out["recorded"].get("panic_on_write", 0) + 1
    return out


def load_known():
    out = []
    if os.path.exists(KNOWN):
        for line in open(KNOWN, encoding="utf-8"):
            if line.startswith("finding:") and "property=C17" in line:
                ent = {}
                for tok in line.split():
                    if "=" in tok:
                        k, v = tok.split("=", 1)
                        ent[k] = v
                ent["what"] = line.strip().split(" what=", 1)[1] if " what=" in line else ""
                out.append(ent)
    return out


def parse_plan(path):
    case = {"id": 0, "tool": "xq", "argv": [], "doc": b"", "kind": "any", "expect": "", "what": "", "gate": "", "sel": ""}
    plan = {"argv": [], "doc": b"", "ins": [], "outs": [], "open": "ok", "stat": "real", "oracle": "O2", "fault": "none"}
    for line in open(path, encoding="utf-8", errors="surrogateescape"):
        line = line.rstrip("\n")
        key, _, rest = line.partition(" ")
        if key == "tool":
            case["tool"] = rest
        elif key == "argv":
            plan["argv"] = [bytes.fromhex(a[4:]) if a.startswith("%HEX") else dec(a) for a in rest.split(" ")] if rest else []
        elif key == "docbytes":
            plan["doc"] = bytes.fromhex(rest)
        elif key == "open":
            plan["open"] = rest
        elif key == "stat":
            plan["stat"] = rest
        elif key == "in":
            plan["ins"] = [t if not t.isdigit() else int(t) for t in rest.split()]
        elif key == "out":
            plan["outs"] = [t if not t.isdigit() else int(t) for t in rest.split()]
        elif key == "case":
            for tok in rest.split(" "):
                k, _, v = tok.partition("=")
                if k == "id":
                    case["id"] = int(v)
                elif k == "kind":
                    case["kind"] = v
                elif k == "expect":
                    case["expect"] = dec(v)
                elif k == "what":
                    case["what"] = dec(v)
                elif k == "sel":
                    case["sel"] = dec(v)
        elif key == "casedoc":
            case["doc"] = bytes.fromhex(rest)
        elif key == "caseargv":
            case["argv"] = [dec(a) for a in rest.split(" ")] if rest else []
        elif key == "oracle":
            parts = rest.split()
            plan["oracle"] = parts[0]
            for t in parts[1:]:
                if t.startswith("fault="):
                    plan["fault"] = t[6:]
    p = Plan(case, doc=plan["doc"], ins=plan["ins"], outs=plan["outs"], open_=plan["open"], stat=plan["stat"], oracle=plan["oracle"], fault=plan["fault"], argv=plan["argv"])
    return case, p


def evaluate_plan(case, plan, wd, release=False):
    """re-run a plan (and what it is compared with) and return the violation or None"""
    if plan.oracle in ("O2", "O3") and plan.fault == "none":
        base = execute(Plan(case, oracle="O3", fault="none"), wd, release)
        v = o2(base)
        if v:
            return v
        canon = None
        if case["kind"] in ("canon", "canonws") and base["rc"] == 0:
            canon = canon_batch([("k", base["out"])]).get("k")
        elif case["kind"] == "stdout" and case.get("sel") and base["rc"] == 0:
            canon = canon_batch([("k", wrap_w(base["out"]))]).get("k")
        return o3(case, base, canon)
    if plan.fault.endswith("+schedule"):
        ref = execute(Plan(case, doc=plan.doc, oracle="O2T", fault="ref"), wd, release)
    else:
        ref = execute(Plan(case, oracle="O3", fault="none"), wd, release)
    res = execute(plan, wd, release)
    return judge(plan, res, ref)


def minimise(case, plan, wd):
    """drop answers from the plan while the same kind of violation persists"""
    cur = plan
    budget = 60
    for attr in ("ins", "outs"):
        i = 0
        while i < len(getattr(cur, attr)) and budget > 0:
            lst = list(getattr(cur, attr))
            del lst[i]
            cand = Plan(case, doc=cur.doc, ins=lst if attr == "ins" else cur.ins, outs=lst if attr == "outs" else cur.outs, open_=cur.open, stat=cur.stat, oracle=cur.oracle, fault=cur.fault, argv=cur.argv)
            budget -= 1
            if evaluate_plan(case, cand, wd):
                cur = cand
            else:
                i += 1
    return cur


def save_plan(case, plan, violation, name):
    os.makedirs(REPLAYS, exist_ok=True)
    path = os.path.join(REPLAYS, name)
    with open(path, "w", encoding="utf-8", errors="surrogateescape") as f:
        f.write(plan.text("/dev/null", "/dev/null", "/dev/null"))
        f.write("violation " + enc(violation) + "\n")
    return path


def check(tier, seed):
    t0 = time.time()
    build(release=False)
    if tier == "thorough":
        build(release=True)
    shutil.rmtree(TMP, ignore_errors=True)
    os.makedirs(TMP, exist_ok=True)
    known = load_known()
    known_reproduced = []
    violations = 0
    for k in known:
        rp = os.path.join(ROOT, k.get("replay", ""))
        if not os.path.exists(rp):
            harness_error("known finding refers to a missing plan file: " + k.get("replay", ""))
        case, plan = parse_plan(rp)
        v = evaluate_plan(case, plan, os.path.join(TMP, "known"))
        if v:
            print("KNOWN-FINDING: property=C17 %s" % (k.get("what") or k.get("name")))
            known_reproduced.append(k.get("name"))
    gates = set(k.get("trigger") for k in known if k.get("trigger") and k.get("trigger") != "none")
    total = QUICK_CASES if tier == "quick" else THOROUGH_CASES
    cases = load_cases(seed, 0, total)
    skipped = {}
    todo = []
    for c in cases:
        if c["gate"] and c["gate"] in gates:
            skipped[c["gate"]] = skipped.get(c["gate"], 0) + 1
            continue
        todo.append(c)
    t1 = time.time()
    stats = {"execs": 0, "faults": {}, "recorded": {}, "kinds": {}, "tools": {}}
    keys = set()
    found = []
    canon_items = []
    results = {}
    passes = [False] + ([True] if tier == "thorough" else [])
    for release in passes:
        sub = todo if not release else todo[: len(todo) // 2]
        with concurrent.futures.ThreadPoolExecutor(max_workers=WORKERS) as ex:
            futs = []
            for i, c in enumerate(sub):
                futs.append(ex.submit(run_case, (c, seed, i % (WORKERS * 4), release)))
            # one working directory per in-flight task: index by future order modulo a bound larger than the pool
            for c, f in zip(sub, futs):
                r = f.result()
                stats["execs"] += r["execs"]
                for k, v in r["faults"].items():
                    stats["faults"][k] = stats["faults"].get(k, 0) + v
                for k, v in r["recorded"].items():
                    stats["recorded"][k] = stats["recorded"].get(k, 0) + v
                stats["kinds"][c["kind"]] = stats["kinds"].get(c["kind"], 0) + 1
                stats["tools"][c["tool"]] = stats["tools"].get(c["tool"], 0) + 1
                keys.update(r["keys"])
                for plan, v in r["viol"]:
                    found.append((c, plan, v, release))
                if r["need_canon"] is not None:
                    canon_items.append(("%d-%d" % (c["id"], 1 if release else 0), r["need_canon"]))
                    results["%d-%d" % (c["id"], 1 if release else 0)] = (c, r["base"], release)
    canon = canon_batch(canon_items)
    for key, (c, base, release) in results.items():
        v = o3(c, base, canon.get(key))
        if v:
            found.append((c, Plan(c, oracle="O3", fault="none"), v, release))
    sim_wall = time.time() - t1
    seen = set()
    for c, plan, v, release in found:
        violations += 1
        sig = (plan.oracle, plan.fault, re.sub(r"\d+", "N", v)[:60])
        if sig in seen and len(seen) >= 1:
            continue
        if len(seen) >= 6:
            continue
        seen.add(sig)
        wd = os.path.join(TMP, "min")
        small = minimise(c, plan, wd) if plan.fault != "none" else plan
        path = save_plan(c, small, v, "C17-%d-%d-%s.plan" % (seed, c["id"], plan.fault))
        print("%s [%s %s] %s" % (c["tool"], plan.oracle, plan.fault, v[:500]))
        print("VIOLATION property=C17 replay=%s" % path)
    wall = time.time() - t0
    os.makedirs(EVIDENCE, exist_ok=True)
    samples = []
    for c in todo[:2]:
        samples.append({"tool": c["tool"], "argv": c["argv"], "document": c["doc"].decode("utf-8", "replace"), "expected": c["kind"], "what": c["what"]})
    ev = {
        "property_id": "C17",
        "tier": tier,
        "seed": seed,
        "level": "exploration",
        "coverage": {
            "evaluations": stats["execs"],
            "distinct_nontrivial": len(keys),
            "rule": "One evaluation = one execution of the real xq or xe binary (built from /repo's working tree) under the LD_PRELOAD shim with one plan. "
            "Cases (document, selecting path, replacement fragment, --setns, --no-indent, file or stdin) are generated from the seed by `domsim gen-cli`; the expected "
            "selection is known by construction on the generator's tree (never computed by XPath). Counted as distinct and non-trivial: distinct (case, plan) pairs, by SHA-1 of "
            "case id, argv, delivered bytes and answer scripts, in which at least one fault was injected (chunked/interrupted delivery, truncation, corruption, failing read/open/write, non-UTF-8 argv).",
            "samples": samples,
            "cases": len(todo),
            "cases_by_expected_kind": stats["kinds"],
            "cases_by_tool": stats["tools"],
            "faults_injected_by_kind": stats["faults"],
            "recorded_not_judged": stats["recorded"],
            "skipped_for_known_finding": skipped,
            "known_findings_reproduced": known_reproduced,
            "executions_per_hour": int(stats["execs"] / sim_wall * 3600) if sim_wall > 0 else 0,
            "wall_s_simulation_only": round(sim_wall, 2),
            "simulated_time": "none: the tools have no clock, timer or timeout; the unit of progress is the intercepted system call",
            "real_vs_stub": "real: the xq and xe executables with everything they link (std, xml-* crates). stub: read, write, writev, open/openat, close, statx/fstat for fd 0,1,2 and the one virtual document path (shim.c)",
            "release_build_pass": tier == "thorough",
        },
        "assumptions": [
            "xq/xe are single-threaded and make a deterministic sequence of libc calls, so a plan replays exactly",
            "the library's own printers define the serialisation of a selected node (printing itself is C03/C04 territory, not claimed)",
            "failures of the output device are recorded, not judged: C17 speaks of unusable input",
        ],
        "wall_s": round(wall, 2),
        "violations": violations,
    }
    with open(os.path.join(EVIDENCE, "C17.json"), "w", encoding="utf-8") as f:
        json.dump(ev, f, indent=1, ensure_ascii=False)
        f.write("\n")
    print("C17 %s: %d cases, %d executions, %d distinct faulted (case, plan) pairs, %d violations, %.1fs" % (tier, len(todo), stats["execs"], len(keys), violations, wall))
    return 1 if violations else 0


def replay(path):
    build(release=False)
    case, plan = parse_plan(path)
    v = evaluate_plan(case, plan, os.path.join(TMP, "replay"))
    if v:
        print("REPRODUCED %s" % v[:600])
        print("VIOLATION property=C17 replay=%s" % path)
        return 1
    print("NOT-REPRODUCED")
    return 0


def main():
    args = sys.argv[1:]
    if not args:
        print(__doc__)
        sys.exit(2)
    if args[0] == "build":
        build(release=False)
        sys.exit(0)
    if args[0] == "check":
        tier = args[args.index("--tier") + 1] if "--tier" in args else "quick"
        seed = int(args[args.index("--seed") + 1]) if "--seed" in args else 1
        sys.exit(check(tier, seed))
    if args[0] == "replay":
        sys.exit(replay(args[1]))
    harness_error("unknown command")


if __name__ == "__main__":
    try:
        main()
    except SystemExit:
        raise
    except BaseException as e:  # a bug in the harness is never a verdict about the property
        import traceback

        traceback.print_exc()
        print("HARNESS-ERROR: %s: %s" % (type(e).__name__, e))
        sys.exit(2)
