/* clisim shim — a deterministic simulated OS boundary for xq/xe (LD_PRELOAD).
 *
 * Answers read/write/open/stat on fd 0, 1, 2 and on ONE virtual document path from a plan file
 * (env SIM_PLAN).  Everything else passes through to libc.  One plan = one exactly repeatable
 * execution: no real pipe, file offset or clock is consulted for the simulated descriptors.
 *
 * plan file (line oriented, see DESIGN.md appendix D):
 *   docsrc stdin | file <path>
 *   docbytes <hex>
 *   open ok|ENOENT|EACCES|EISDIR|EMFILE|EIO
 *   stat real|zero|double
 *   in  <tok>...      tok = <n> | EINTR | EIO | EOF        answers to successive read() on the input fd
 *   out <tok>...      tok = <n> | EINTR | ENOSPC | EPIPE | EIO | ZERO   answers to successive write() on fd 1
 *   capture_out <path>   capture_err <path>   trace <path>
 * When a script is exhausted the shim delivers / accepts everything.
 */
#define _GNU_SOURCE
#include <dlfcn.h>
#include <errno.h>
#include <fcntl.h>
#include <stdarg.h>
#include <stdio.h>
#include <stdlib.h>
#include <string.h>
#include <sys/stat.h>
#include <sys/syscall.h>
#include <sys/uio.h>
#include <unistd.h>

#define MAXTOK 4096

static int inited = 0;
static int active = 0;
static int doc_is_file = 0;
static char doc_path[512];
static unsigned char *doc = NULL;
static size_t doc_len = 0, doc_pos = 0;
static int open_errno = 0;
static int stat_mode = 0; /* 0 real, 1 zero, 2 double */
static long in_tok[MAXTOK];
static int in_n = 0, in_i = 0;
static long out_tok[MAXTOK];
static int out_n = 0, out_i = 0;
static int cap_out = -1, cap_err = -1, trace_fd = -1;
static int docfd = -1;
static int eof_forced = 0;

enum { T_EINTR = -1, T_EIO = -2, T_EOF = -3, T_ENOSPC = -4, T_EPIPE = -5, T_ZERO = -6 };

static ssize_t (*real_read)(int, void *, size_t);
static ssize_t (*real_write)(int, const void *, size_t);
static int (*real_close)(int);

static ssize_t raw_write(int fd, const void *b, size_t n) { return syscall(SYS_write, fd, b, n); }

static void tr(const char *fmt, ...) {
    if (trace_fd < 0) return;
    char buf[256];
    va_list ap;
    va_start(ap, fmt);
    int n = vsnprintf(buf, sizeof buf, fmt, ap);
    va_end(ap);
    if (n > 0) raw_write(trace_fd, buf, (size_t)n);
}

static long tok(const char *t) {
    if (!strcmp(t, "EINTR")) return T_EINTR;
    if (!strcmp(t, "EIO")) return T_EIO;
    if (!strcmp(t, "EOF")) return T_EOF;
    if (!strcmp(t, "ENOSPC")) return T_ENOSPC;
    if (!strcmp(t, "EPIPE")) return T_EPIPE;
    if (!strcmp(t, "ZERO")) return T_ZERO;
    return atol(t);
}

static int hexv(int c) {
    if (c >= '0' && c <= '9') return c - '0';
    if (c >= 'a' && c <= 'f') return c - 'a' + 10;
    if (c >= 'A' && c <= 'F') return c - 'A' + 10;
    return 0;
}

static int raw_open(const char *p, int flags, int mode) { return (int)syscall(SYS_openat, AT_FDCWD, p, flags, mode); }

static void init(void) {
    if (inited) return;
    inited = 1;
    real_read = dlsym(RTLD_NEXT, "read");
    real_write = dlsym(RTLD_NEXT, "write");
    real_close = dlsym(RTLD_NEXT, "close");
    const char *pp = getenv("SIM_PLAN");
    if (!pp) return;
    int fd = raw_open(pp, O_RDONLY, 0);
    if (fd < 0) return;
    size_t cap = 1 << 20, len = 0;
    char *buf = malloc(cap);
    for (;;) {
        ssize_t r = syscall(SYS_read, fd, buf + len, cap - len - 1);
        if (r <= 0) break;
        len += (size_t)r;
        if (len + 1 >= cap) {
            cap *= 2;
            buf = realloc(buf, cap);
        }
    }
    syscall(SYS_close, fd);
    buf[len] = 0;
    char *save = NULL;
    for (char *line = strtok_r(buf, "\n", &save); line; line = strtok_r(NULL, "\n", &save)) {
        char *sp = NULL;
        char *key = strtok_r(line, " ", &sp);
        if (!key) continue;
        if (!strcmp(key, "docsrc")) {
            char *k = strtok_r(NULL, " ", &sp);
            if (k && !strcmp(k, "file")) {
                doc_is_file = 1;
                char *p = strtok_r(NULL, " ", &sp);
                if (p) strncpy(doc_path, p, sizeof doc_path - 1);
            }
        } else if (!strcmp(key, "docbytes")) {
            char *h = strtok_r(NULL, " ", &sp);
            if (h) {
                size_t n = strlen(h) / 2;
                doc = malloc(n + 1);
                for (size_t i = 0; i < n; i++) doc[i] = (unsigned char)(hexv(h[2 * i]) * 16 + hexv(h[2 * i + 1]));
                doc_len = n;
            } else {
                doc = malloc(1);
                doc_len = 0;
            }
        } else if (!strcmp(key, "open")) {
            char *k = strtok_r(NULL, " ", &sp);
            if (!k || !strcmp(k, "ok")) open_errno = 0;
            else if (!strcmp(k, "ENOENT")) open_errno = ENOENT;
            else if (!strcmp(k, "EACCES")) open_errno = EACCES;
            else if (!strcmp(k, "EISDIR")) open_errno = EISDIR;
            else if (!strcmp(k, "EMFILE")) open_errno = EMFILE;
            else open_errno = EIO;
        } else if (!strcmp(key, "stat")) {
            char *k = strtok_r(NULL, " ", &sp);
            if (k && !strcmp(k, "zero")) stat_mode = 1;
            else if (k && !strcmp(k, "double")) stat_mode = 2;
        } else if (!strcmp(key, "in")) {
            for (char *t = strtok_r(NULL, " ", &sp); t && in_n < MAXTOK; t = strtok_r(NULL, " ", &sp)) in_tok[in_n++] = tok(t);
        } else if (!strcmp(key, "out")) {
            for (char *t = strtok_r(NULL, " ", &sp); t && out_n < MAXTOK; t = strtok_r(NULL, " ", &sp)) out_tok[out_n++] = tok(t);
        } else if (!strcmp(key, "capture_out")) {
            char *p = strtok_r(NULL, " ", &sp);
            if (p) cap_out = raw_open(p, O_WRONLY | O_CREAT | O_TRUNC, 0644);
        } else if (!strcmp(key, "capture_err")) {
            char *p = strtok_r(NULL, " ", &sp);
            if (p) cap_err = raw_open(p, O_WRONLY | O_CREAT | O_TRUNC, 0644);
        } else if (!strcmp(key, "trace")) {
            char *p = strtok_r(NULL, " ", &sp);
            if (p) trace_fd = raw_open(p, O_WRONLY | O_CREAT | O_TRUNC, 0644);
        }
    }
    if (!doc) {
        doc = malloc(1);
        doc_len = 0;
    }
    active = 1;
}

static int is_input_fd(int fd) { return active && ((!doc_is_file && fd == 0) || (doc_is_file && docfd >= 0 && fd == docfd)); }

static ssize_t sim_read(int fd, void *buf, size_t count) {
    if (count == 0) return 0;
    long t = (in_i < in_n) ? in_tok[in_i++] : (long)count;
    if (t == T_EINTR) {
        tr("%d read %zu EINTR\n", fd, count);
        errno = EINTR;
        return -1;
    }
    if (t == T_EIO || t < T_EOF) {
        tr("%d read %zu EIO\n", fd, count);
        errno = EIO;
        return -1;
    }
    if (t == T_EOF) eof_forced = 1;
    if (eof_forced) {
        tr("%d read %zu 0\n", fd, count);
        return 0;
    }
    size_t n = (size_t)t;
    if (n == 0) n = 1;
    if (n > count) n = count;
    if (n > doc_len - doc_pos) n = doc_len - doc_pos;
    memcpy(buf, doc + doc_pos, n);
    doc_pos += n;
    tr("%d read %zu %zu\n", fd, count, n);
    return (ssize_t)n;
}

ssize_t read(int fd, void *buf, size_t count) {
    init();
    if (is_input_fd(fd)) return sim_read(fd, buf, count);
    if (active && fd == 0) {
        /* the document comes from a file: stdin is an empty terminal */
        tr("0 read %zu 0\n", count);
        return 0;
    }
    return real_read(fd, buf, count);
}

static ssize_t sim_write_out(const void *buf, size_t count) {
    if (count == 0) return 0;
    long t = (out_i < out_n) ? out_tok[out_i++] : (long)count;
    if (t == T_EINTR) {
        tr("1 write %zu EINTR\n", count);
        errno = EINTR;
        return -1;
    }
    if (t == T_ENOSPC) {
        tr("1 write %zu ENOSPC\n", count);
        errno = ENOSPC;
        return -1;
    }
    if (t == T_EPIPE) {
        tr("1 write %zu EPIPE\n", count);
        errno = EPIPE;
        return -1;
    }
    if (t == T_EIO || t == T_EOF) {
        tr("1 write %zu EIO\n", count);
        errno = EIO;
        return -1;
    }
    if (t == T_ZERO) {
        tr("1 write %zu 0\n", count);
        return 0;
    }
    size_t n = (size_t)t;
    if (n == 0) n = 1;
    if (n > count) n = count;
    if (cap_out >= 0) raw_write(cap_out, buf, n);
    tr("1 write %zu %zu\n", count, n);
    return (ssize_t)n;
}

ssize_t write(int fd, const void *buf, size_t count) {
    init();
    if (active && fd == 1) return sim_write_out(buf, count);
    if (active && fd == 2) {
        if (cap_err >= 0) raw_write(cap_err, buf, count);
        tr("2 write %zu %zu\n", count, count);
        return (ssize_t)count;
    }
    return real_write(fd, buf, count);
}

ssize_t writev(int fd, const struct iovec *iov, int iovcnt) {
    init();
    if (active && (fd == 1 || fd == 2)) {
        /* behave like one write of the first non-empty segment: a short writev is legal */
        for (int i = 0; i < iovcnt; i++)
            if (iov[i].iov_len > 0) return write(fd, iov[i].iov_base, iov[i].iov_len);
        return 0;
    }
    return syscall(SYS_writev, fd, iov, iovcnt);
}

static int is_doc_path(const char *p) { return active && doc_is_file && p && !strcmp(p, doc_path); }

static int sim_open(void) {
    if (open_errno) {
        tr("- open %s errno=%d\n", doc_path, open_errno);
        errno = open_errno;
        return -1;
    }
    docfd = raw_open("/dev/null", O_RDONLY | O_CLOEXEC, 0);
    doc_pos = 0;
    eof_forced = 0;
    tr("%d open %s ok\n", docfd, doc_path);
    return docfd;
}

int open(const char *path, int flags, ...) {
    init();
    int mode = 0;
    if (flags & (O_CREAT | O_TMPFILE)) {
        va_list ap;
        va_start(ap, flags);
        mode = va_arg(ap, int);
        va_end(ap);
    }
    if (is_doc_path(path)) return sim_open();
    return raw_open(path, flags, mode);
}

int open64(const char *path, int flags, ...) {
    init();
    int mode = 0;
    if (flags & (O_CREAT | O_TMPFILE)) {
        va_list ap;
        va_start(ap, flags);
        mode = va_arg(ap, int);
        va_end(ap);
    }
    if (is_doc_path(path)) return sim_open();
    return raw_open(path, flags, mode);
}

int openat(int dirfd, const char *path, int flags, ...) {
    init();
    int mode = 0;
    if (flags & (O_CREAT | O_TMPFILE)) {
        va_list ap;
        va_start(ap, flags);
        mode = va_arg(ap, int);
        va_end(ap);
    }
    if (is_doc_path(path)) return sim_open();
    return (int)syscall(SYS_openat, dirfd, path, flags, mode);
}

int openat64(int dirfd, const char *path, int flags, ...) {
    init();
    int mode = 0;
    if (flags & (O_CREAT | O_TMPFILE)) {
        va_list ap;
        va_start(ap, flags);
        mode = va_arg(ap, int);
        va_end(ap);
    }
    if (is_doc_path(path)) return sim_open();
    return (int)syscall(SYS_openat, dirfd, path, flags, mode);
}

int close(int fd) {
    init();
    if (active && doc_is_file && fd == docfd && docfd >= 0) {
        tr("%d close\n", fd);
        int r = (int)syscall(SYS_close, fd);
        docfd = -1;
        return r;
    }
    if (active && (fd == cap_out || fd == cap_err || fd == trace_fd) && fd >= 0) return 0; /* the shim's own files stay open */
    return (int)syscall(SYS_close, fd);
}

static size_t sim_size(void) {
    if (stat_mode == 1) return 0;
    if (stat_mode == 2) return doc_len * 2;
    return doc_len;
}

int statx(int dirfd, const char *path, int flags, unsigned int mask, struct statx *st) {
    init();
    if (active && doc_is_file && docfd >= 0 && dirfd == docfd && path && path[0] == 0) {
        memset(st, 0, sizeof *st);
        st->stx_mask = STATX_BASIC_STATS;
        st->stx_mode = S_IFREG | 0644;
        st->stx_size = sim_size();
        st->stx_nlink = 1;
        st->stx_blksize = 4096;
        tr("%d statx size=%zu\n", dirfd, sim_size());
        return 0;
    }
    return (int)syscall(SYS_statx, dirfd, path, flags, mask, st);
}

int fstat(int fd, struct stat *st) {
    init();
    int r = (int)syscall(SYS_fstat, fd, st);
    if (r == 0 && active && doc_is_file && docfd >= 0 && fd == docfd) {
        st->st_mode = S_IFREG | 0644;
        st->st_size = (off_t)sim_size();
        tr("%d fstat size=%zu\n", fd, sim_size());
    }
    return r;
}

int fstat64(int fd, struct stat64 *st) {
    init();
    int r = (int)syscall(SYS_fstat, fd, st);
    if (r == 0 && active && doc_is_file && docfd >= 0 && fd == docfd) {
        st->st_mode = S_IFREG | 0644;
        st->st_size = (off_t)sim_size();
        tr("%d fstat size=%zu\n", fd, sim_size());
    }
    return r;
}
