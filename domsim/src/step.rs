//! Resolved steps of a history and their line-oriented text form (replay files).

pub type S = usize;

#[derive(Clone, Copy, Debug, PartialEq, Eq)]
pub enum NavKind {
    Parent,
    First,
    Last,
    Prev,
    Next,
    DocElement,
    OwnerDoc,
}

impl NavKind {
    pub fn name(&self) -> &'static str {
        match self {
            NavKind::Parent => "parent",
            NavKind::First => "first",
            NavKind::Last => "last",
            NavKind::Prev => "prev",
            NavKind::Next => "next",
            NavKind::DocElement => "docel",
            NavKind::OwnerDoc => "ownerdoc",
        }
    }
    pub fn parse(s: &str) -> Option<NavKind> {
        Some(match s {
            "parent" => NavKind::Parent,
            "first" => NavKind::First,
            "last" => NavKind::Last,
            "prev" => NavKind::Prev,
            "next" => NavKind::Next,
            "docel" => NavKind::DocElement,
            "ownerdoc" => NavKind::OwnerDoc,
            _ => return None,
        })
    }
}

#[derive(Clone, Debug, PartialEq)]
pub enum Op {
    InsertBefore { recv: S, new: S, refc: Option<S>, out: S },
    AppendChild { recv: S, new: S, out: S },
    ReplaceChild { recv: S, new: S, old: S, out: S },
    RemoveChild { recv: S, old: S, out: S },
    SetAttribute { el: S, name: String, value: String },
    RemoveAttribute { el: S, name: String },
    SetAttributeNode { el: S, attr: S, out: S },
    RemoveAttributeNode { el: S, attr: S, out: S },
    MapSetNamedItem { map: S, attr: S, out: S },
    MapRemoveNamedItem { map: S, name: String, out: S },
    SetValue { node: S, value: String },
    CreateElement { doc: usize, name: String, out: S },
    CreateText { doc: usize, data: String, out: S },
    CreateComment { doc: usize, data: String, out: S },
    CreateCData { doc: usize, data: String, out: S },
    CreatePI { doc: usize, target: String, data: String, out: S },
    CreateAttr { doc: usize, name: String, out: S },
    CreateEntRef { doc: usize, name: String, out: S },
    CreateFragment { doc: usize, out: S },
    SetData { node: S, data: String },
    AppendData { node: S, data: String },
    InsertData { node: S, off: usize, data: String },
    DeleteData { node: S, off: usize, cnt: usize },
    ReplaceData { node: S, off: usize, cnt: usize, data: String },
    Substring { node: S, off: usize, cnt: usize },
    SplitText { node: S, off: usize, out: S },
    /// Element::normalize(): adjacent Text children in the whole subtree become one Text node
    Normalize { el: S },
    Nav { node: S, which: NavKind, out: S },
    ChildIter { node: S, out: S },
    ChildList { node: S, out: S },
    AttrMap { node: S, out: S },
    ListItem { list: S, idx: usize, out: S },
    VecItem { vec: S, idx: usize, out: S },
    MapItem { map: S, idx: usize, out: S },
    MapGet { map: S, name: String, out: S },
    GetAttrNode { el: S, name: String, out: S },
    ByTag { node: S, name: String, out: S },
    /// keep the live list that get_elements_by_tag_name returns
    TagList { node: S, name: String, out: S },
    /// read a held live list now: length(), every item(i), iter()
    TagListRead { list: S, out: S },
    Touch { node: S },
    DocRoot { doc: usize, out: S },
    Drop { slot: S },
    DropAllBut { keep: Vec<S> },
    NewCtx { out: S, ns: Vec<(String, String)> },
    /// re-bind (`uri` non-empty) or remove (`uri` empty) a prefix on an evaluation context (empty prefix = default namespace)
    CtxNs { ctx: S, prefix: String, uri: String },
    Query { ctx: S, doc: usize, expr: String, out: S },
    Checkpoint { doc: usize },
    Restart { doc: usize },
    Reparse { doc: usize },
    /// mutate the (read-only) entities / notations map of the document type: which = 0 entities set, 1 entities remove, 2 notations set, 3 notations remove
    DtMap { doc: usize, which: usize, name: String },
    /// a canned multi-call probe on a private re-parse of the document's current serialisation (the
    /// model is not involved): 0 move the value piece of a DTD-defaulted attribute, 1 set_value on a
    /// defaulted attribute, 2 set_data on its value piece, 3 sibling navigation of a notation after the
    /// document type was removed
    Probe { doc: usize, which: usize },
}

#[derive(Clone, Debug, PartialEq)]
pub struct Step {
    pub task: usize,
    pub op: Op,
}

// ---------------------------------------------------------------------------------------------
// text form

pub fn enc(s: &str) -> String {
    let mut o = String::new();
    if s.is_empty() {
        return "%".to_string();
    }
    for b in s.bytes() {
        let c = b as char;
        if b.is_ascii_alphanumeric() || "-_.:/@*()[]|!<>?;#'\"+,&".contains(c) {
            o.push(c);
        } else {
            o.push_str(&format!("%{:02X}", b));
        }
    }
    o
}

pub fn dec(s: &str) -> Option<String> {
    if s == "%" {
        return Some(String::new());
    }
    let b = s.as_bytes();
    let mut out = Vec::new();
    let mut i = 0;
    while i < b.len() {
        if b[i] == b'%' {
            if i + 3 > b.len() {
                return None;
            }
            let h = std::str::from_utf8(&b[i + 1..i + 3]).ok()?;
            out.push(u8::from_str_radix(h, 16).ok()?);
            i += 3;
        } else {
            out.push(b[i]);
            i += 1;
        }
    }
    String::from_utf8(out).ok()
}

fn num(n: usize) -> String {
    if n == usize::MAX {
        "max".to_string()
    } else if n > usize::MAX - 16 {
        format!("max-{}", usize::MAX - n)
    } else {
        n.to_string()
    }
}

fn parse_num(s: &str) -> Option<usize> {
    if s == "max" {
        Some(usize::MAX)
    } else if let Some(r) = s.strip_prefix("max-") {
        Some(usize::MAX - r.parse::<usize>().ok()?)
    } else {
        s.parse().ok()
    }
}

struct W {
    s: String,
}
impl W {
    fn new(task: usize, name: &str) -> W {
        W { s: format!("step t{} {}", task, name) }
    }
    fn n(mut self, k: &str, v: usize) -> W {
        self.s.push_str(&format!(" {}={}", k, num(v)));
        self
    }
    fn on(self, k: &str, v: Option<usize>) -> W {
        match v {
            Some(v) => self.n(k, v),
            None => self,
        }
    }
    fn t(mut self, k: &str, v: &str) -> W {
        self.s.push_str(&format!(" {}={}", k, enc(v)));
        self
    }
}

impl Step {
    pub fn to_line(&self) -> String {
        let t = self.task;
        let w = match &self.op {
            Op::InsertBefore { recv, new, refc, out } => {
                W::new(t, "insert_before").n("recv", *recv).n("new", *new).on("ref", *refc).n("out", *out)
            }
            Op::AppendChild { recv, new, out } => W::new(t, "append_child").n("recv", *recv).n("new", *new).n("out", *out),
            Op::ReplaceChild { recv, new, old, out } => {
                W::new(t, "replace_child").n("recv", *recv).n("new", *new).n("old", *old).n("out", *out)
            }
            Op::RemoveChild { recv, old, out } => W::new(t, "remove_child").n("recv", *recv).n("old", *old).n("out", *out),
            Op::SetAttribute { el, name, value } => W::new(t, "set_attribute").n("el", *el).t("name", name).t("value", value),
            Op::RemoveAttribute { el, name } => W::new(t, "remove_attribute").n("el", *el).t("name", name),
            Op::SetAttributeNode { el, attr, out } => W::new(t, "set_attribute_node").n("el", *el).n("attr", *attr).n("out", *out),
            Op::RemoveAttributeNode { el, attr, out } => {
                W::new(t, "remove_attribute_node").n("el", *el).n("attr", *attr).n("out", *out)
            }
            Op::MapSetNamedItem { map, attr, out } => W::new(t, "map_set_named_item").n("map", *map).n("attr", *attr).n("out", *out),
            Op::MapRemoveNamedItem { map, name, out } => W::new(t, "map_remove_named_item").n("map", *map).t("name", name).n("out", *out),
            Op::SetValue { node, value } => W::new(t, "set_value").n("node", *node).t("value", value),
            Op::CreateElement { doc, name, out } => W::new(t, "create_element").n("doc", *doc).t("name", name).n("out", *out),
            Op::CreateText { doc, data, out } => W::new(t, "create_text").n("doc", *doc).t("data", data).n("out", *out),
            Op::CreateComment { doc, data, out } => W::new(t, "create_comment").n("doc", *doc).t("data", data).n("out", *out),
            Op::CreateCData { doc, data, out } => W::new(t, "create_cdata").n("doc", *doc).t("data", data).n("out", *out),
            Op::CreatePI { doc, target, data, out } => {
                W::new(t, "create_pi").n("doc", *doc).t("target", target).t("data", data).n("out", *out)
            }
            Op::CreateAttr { doc, name, out } => W::new(t, "create_attr").n("doc", *doc).t("name", name).n("out", *out),
            Op::CreateEntRef { doc, name, out } => W::new(t, "create_entref").n("doc", *doc).t("name", name).n("out", *out),
            Op::CreateFragment { doc, out } => W::new(t, "create_fragment").n("doc", *doc).n("out", *out),
            Op::SetData { node, data } => W::new(t, "set_data").n("node", *node).t("data", data),
            Op::AppendData { node, data } => W::new(t, "append_data").n("node", *node).t("data", data),
            Op::InsertData { node, off, data } => W::new(t, "insert_data").n("node", *node).n("off", *off).t("data", data),
            Op::DeleteData { node, off, cnt } => W::new(t, "delete_data").n("node", *node).n("off", *off).n("cnt", *cnt),
            Op::ReplaceData { node, off, cnt, data } => {
                W::new(t, "replace_data").n("node", *node).n("off", *off).n("cnt", *cnt).t("data", data)
            }
            Op::Substring { node, off, cnt } => W::new(t, "substring_data").n("node", *node).n("off", *off).n("cnt", *cnt),
            Op::SplitText { node, off, out } => W::new(t, "split_text").n("node", *node).n("off", *off).n("out", *out),
            Op::Normalize { el } => W::new(t, "normalize").n("el", *el),
            Op::Nav { node, which, out } => W::new(t, "nav").n("node", *node).t("which", which.name()).n("out", *out),
            Op::ChildIter { node, out } => W::new(t, "child_iter").n("node", *node).n("out", *out),
            Op::ChildList { node, out } => W::new(t, "child_list").n("node", *node).n("out", *out),
            Op::AttrMap { node, out } => W::new(t, "attr_map").n("node", *node).n("out", *out),
            Op::ListItem { list, idx, out } => W::new(t, "list_item").n("list", *list).n("idx", *idx).n("out", *out),
            Op::VecItem { vec, idx, out } => W::new(t, "vec_item").n("vec", *vec).n("idx", *idx).n("out", *out),
            Op::MapItem { map, idx, out } => W::new(t, "map_item").n("map", *map).n("idx", *idx).n("out", *out),
            Op::MapGet { map, name, out } => W::new(t, "map_get").n("map", *map).t("name", name).n("out", *out),
            Op::GetAttrNode { el, name, out } => W::new(t, "get_attr_node").n("el", *el).t("name", name).n("out", *out),
            Op::ByTag { node, name, out } => W::new(t, "by_tag").n("node", *node).t("name", name).n("out", *out),
            Op::TagList { node, name, out } => W::new(t, "tag_list").n("node", *node).t("name", name).n("out", *out),
            Op::TagListRead { list, out } => W::new(t, "tag_list_read").n("list", *list).n("out", *out),
            Op::Touch { node } => W::new(t, "touch").n("node", *node),
            Op::DocRoot { doc, out } => W::new(t, "doc_root").n("doc", *doc).n("out", *out),
            Op::Drop { slot } => W::new(t, "drop").n("slot", *slot),
            Op::DropAllBut { keep } => {
                let ks: Vec<String> = keep.iter().map(|k| k.to_string()).collect();
                W::new(t, "drop_all_but").t("keep", &ks.join(","))
            }
            Op::NewCtx { out, ns } => {
                let parts: Vec<String> = ns.iter().map(|(p, u)| format!("{}>{}", p, u)).collect();
                W::new(t, "new_ctx").n("out", *out).t("ns", &parts.join(" "))
            }
            Op::CtxNs { ctx, prefix, uri } => W::new(t, "ctx_ns").n("ctx", *ctx).t("prefix", prefix).t("uri", uri),
            Op::Query { ctx, doc, expr, out } => W::new(t, "query").n("ctx", *ctx).n("doc", *doc).t("expr", expr).n("out", *out),
            Op::Checkpoint { doc } => W::new(t, "checkpoint").n("doc", *doc),
            Op::Restart { doc } => W::new(t, "restart").n("doc", *doc),
            Op::Reparse { doc } => W::new(t, "reparse").n("doc", *doc),
            Op::DtMap { doc, which, name } => W::new(t, "dt_map").n("doc", *doc).n("which", *which).t("name", name),
            Op::Probe { doc, which } => W::new(t, "probe").n("doc", *doc).n("which", *which),
        };
        w.s
    }

    pub fn from_line(line: &str) -> Option<Step> {
        let mut it = line.split_whitespace();
        if it.next()? != "step" {
            return None;
        }
        let task: usize = it.next()?.strip_prefix('t')?.parse().ok()?;
        let name = it.next()?;
        let mut kv: Vec<(String, String)> = Vec::new();
        for tok in it {
            let (k, v) = tok.split_once('=')?;
            kv.push((k.to_string(), v.to_string()));
        }
        let get = |k: &str| -> Option<&str> { kv.iter().find(|(a, _)| a == k).map(|(_, v)| v.as_str()) };
        let n = |k: &str| -> Option<usize> { parse_num(get(k)?) };
        let t = |k: &str| -> Option<String> { dec(get(k)?) };
        let op = match name {
            "insert_before" => Op::InsertBefore { recv: n("recv")?, new: n("new")?, refc: n("ref"), out: n("out")? },
            "append_child" => Op::AppendChild { recv: n("recv")?, new: n("new")?, out: n("out")? },
            "replace_child" => Op::ReplaceChild { recv: n("recv")?, new: n("new")?, old: n("old")?, out: n("out")? },
            "remove_child" => Op::RemoveChild { recv: n("recv")?, old: n("old")?, out: n("out")? },
            "set_attribute" => Op::SetAttribute { el: n("el")?, name: t("name")?, value: t("value")? },
            "remove_attribute" => Op::RemoveAttribute { el: n("el")?, name: t("name")? },
            "set_attribute_node" => Op::SetAttributeNode { el: n("el")?, attr: n("attr")?, out: n("out")? },
            "remove_attribute_node" => Op::RemoveAttributeNode { el: n("el")?, attr: n("attr")?, out: n("out")? },
            "map_set_named_item" => Op::MapSetNamedItem { map: n("map")?, attr: n("attr")?, out: n("out")? },
            "map_remove_named_item" => Op::MapRemoveNamedItem { map: n("map")?, name: t("name")?, out: n("out")? },
            "set_value" => Op::SetValue { node: n("node")?, value: t("value")? },
            "create_element" => Op::CreateElement { doc: n("doc")?, name: t("name")?, out: n("out")? },
            "create_text" => Op::CreateText { doc: n("doc")?, data: t("data")?, out: n("out")? },
            "create_comment" => Op::CreateComment { doc: n("doc")?, data: t("data")?, out: n("out")? },
            "create_cdata" => Op::CreateCData { doc: n("doc")?, data: t("data")?, out: n("out")? },
            "create_pi" => Op::CreatePI { doc: n("doc")?, target: t("target")?, data: t("data")?, out: n("out")? },
            "create_attr" => Op::CreateAttr { doc: n("doc")?, name: t("name")?, out: n("out")? },
            "create_entref" => Op::CreateEntRef { doc: n("doc")?, name: t("name")?, out: n("out")? },
            "create_fragment" => Op::CreateFragment { doc: n("doc")?, out: n("out")? },
            "set_data" => Op::SetData { node: n("node")?, data: t("data")? },
            "append_data" => Op::AppendData { node: n("node")?, data: t("data")? },
            "insert_data" => Op::InsertData { node: n("node")?, off: n("off")?, data: t("data")? },
            "delete_data" => Op::DeleteData { node: n("node")?, off: n("off")?, cnt: n("cnt")? },
            "replace_data" => Op::ReplaceData { node: n("node")?, off: n("off")?, cnt: n("cnt")?, data: t("data")? },
            "substring_data" => Op::Substring { node: n("node")?, off: n("off")?, cnt: n("cnt")? },
            "split_text" => Op::SplitText { node: n("node")?, off: n("off")?, out: n("out")? },
            "normalize" => Op::Normalize { el: n("el")? },
            "nav" => Op::Nav { node: n("node")?, which: NavKind::parse(&t("which")?)?, out: n("out")? },
            "child_iter" => Op::ChildIter { node: n("node")?, out: n("out")? },
            "child_list" => Op::ChildList { node: n("node")?, out: n("out")? },
            "attr_map" => Op::AttrMap { node: n("node")?, out: n("out")? },
            "list_item" => Op::ListItem { list: n("list")?, idx: n("idx")?, out: n("out")? },
            "vec_item" => Op::VecItem { vec: n("vec")?, idx: n("idx")?, out: n("out")? },
            "map_item" => Op::MapItem { map: n("map")?, idx: n("idx")?, out: n("out")? },
            "map_get" => Op::MapGet { map: n("map")?, name: t("name")?, out: n("out")? },
            "get_attr_node" => Op::GetAttrNode { el: n("el")?, name: t("name")?, out: n("out")? },
            "by_tag" => Op::ByTag { node: n("node")?, name: t("name")?, out: n("out")? },
            "tag_list" => Op::TagList { node: n("node")?, name: t("name")?, out: n("out")? },
            "tag_list_read" => Op::TagListRead { list: n("list")?, out: n("out")? },
            "touch" => Op::Touch { node: n("node")? },
            "doc_root" => Op::DocRoot { doc: n("doc")?, out: n("out")? },
            "drop" => Op::Drop { slot: n("slot")? },
            "drop_all_but" => {
                let ks = t("keep")?;
                let keep = if ks.is_empty() {
                    vec![]
                } else {
                    ks.split(',').map(|k| k.parse::<usize>().ok()).collect::<Option<Vec<_>>>()?
                };
                Op::DropAllBut { keep }
            }
            "new_ctx" => {
                let s = t("ns")?;
                let mut ns = vec![];
                for part in s.split(' ') {
                    if part.is_empty() {
                        continue;
                    }
                    let (p, u) = part.split_once('>')?;
                    ns.push((p.to_string(), u.to_string()));
                }
                Op::NewCtx { out: n("out")?, ns }
            }
            "ctx_ns" => Op::CtxNs { ctx: n("ctx")?, prefix: t("prefix")?, uri: t("uri")? },
            "query" => Op::Query { ctx: n("ctx")?, doc: n("doc")?, expr: t("expr")?, out: n("out")? },
            "checkpoint" => Op::Checkpoint { doc: n("doc")? },
            "restart" => Op::Restart { doc: n("doc")? },
            "reparse" => Op::Reparse { doc: n("doc")? },
            "dt_map" => Op::DtMap { doc: n("doc")?, which: n("which")?, name: t("name")? },
            "probe" => Op::Probe { doc: n("doc")?, which: n("which")? },
            _ => return None,
        };
        Some(Step { task, op })
    }

    pub fn op_name(&self) -> &'static str {
        match &self.op {
            Op::InsertBefore { .. } => "insert_before",
            Op::AppendChild { .. } => "append_child",
            Op::ReplaceChild { .. } => "replace_child",
            Op::RemoveChild { .. } => "remove_child",
            Op::SetAttribute { .. } => "set_attribute",
            Op::RemoveAttribute { .. } => "remove_attribute",
            Op::SetAttributeNode { .. } => "set_attribute_node",
            Op::RemoveAttributeNode { .. } => "remove_attribute_node",
            Op::MapSetNamedItem { .. } => "map_set_named_item",
            Op::MapRemoveNamedItem { .. } => "map_remove_named_item",
            Op::SetValue { .. } => "set_value",
            Op::CreateElement { .. } => "create_element",
            Op::CreateText { .. } => "create_text",
            Op::CreateComment { .. } => "create_comment",
            Op::CreateCData { .. } => "create_cdata",
            Op::CreatePI { .. } => "create_pi",
            Op::CreateAttr { .. } => "create_attr",
            Op::CreateEntRef { .. } => "create_entref",
            Op::CreateFragment { .. } => "create_fragment",
            Op::SetData { .. } => "set_data",
            Op::AppendData { .. } => "append_data",
            Op::InsertData { .. } => "insert_data",
            Op::DeleteData { .. } => "delete_data",
            Op::ReplaceData { .. } => "replace_data",
            Op::Substring { .. } => "substring_data",
            Op::SplitText { .. } => "split_text",
            Op::Normalize { .. } => "normalize",
            Op::Nav { .. } => "nav",
            Op::ChildIter { .. } => "child_iter",
            Op::ChildList { .. } => "child_list",
            Op::AttrMap { .. } => "attr_map",
            Op::ListItem { .. } => "list_item",
            Op::VecItem { .. } => "vec_item",
            Op::MapItem { .. } => "map_item",
            Op::MapGet { .. } => "map_get",
            Op::GetAttrNode { .. } => "get_attr_node",
            Op::ByTag { .. } => "by_tag",
            Op::TagList { .. } => "tag_list",
            Op::TagListRead { .. } => "tag_list_read",
            Op::Touch { .. } => "touch",
            Op::DocRoot { .. } => "doc_root",
            Op::Drop { .. } => "drop",
            Op::DropAllBut { .. } => "drop_all_but",
            Op::NewCtx { .. } => "new_ctx",
            Op::CtxNs { .. } => "ctx_ns",
            Op::Query { .. } => "query",
            Op::Checkpoint { .. } => "checkpoint",
            Op::Restart { .. } => "restart",
            Op::Reparse { .. } => "reparse",
            Op::DtMap { .. } => "dt_map",
            Op::Probe { .. } => "probe",
        }
    }

    /// true for calls that the DOM Level 1 interface classifies as mutators (C13 scope)
    pub fn is_mutator(&self) -> bool {
        matches!(
            &self.op,
            Op::InsertBefore { .. }
                | Op::AppendChild { .. }
                | Op::ReplaceChild { .. }
                | Op::RemoveChild { .. }
                | Op::SetAttribute { .. }
                | Op::RemoveAttribute { .. }
                | Op::SetAttributeNode { .. }
                | Op::RemoveAttributeNode { .. }
                | Op::MapSetNamedItem { .. }
                | Op::MapRemoveNamedItem { .. }
                | Op::SetValue { .. }
                | Op::CreateElement { .. }
                | Op::CreateText { .. }
                | Op::CreateComment { .. }
                | Op::CreateCData { .. }
                | Op::CreatePI { .. }
                | Op::CreateAttr { .. }
                | Op::CreateEntRef { .. }
                | Op::CreateFragment { .. }
                | Op::SetData { .. }
                | Op::AppendData { .. }
                | Op::InsertData { .. }
                | Op::DeleteData { .. }
                | Op::ReplaceData { .. }
                | Op::SplitText { .. }
                | Op::Normalize { .. }
                | Op::DtMap { .. }
        )
    }

    pub fn is_chardata(&self) -> bool {
        matches!(
            &self.op,
            Op::SetData { .. }
                | Op::AppendData { .. }
                | Op::InsertData { .. }
                | Op::DeleteData { .. }
                | Op::ReplaceData { .. }
                | Op::Substring { .. }
                | Op::SplitText { .. }
        )
    }
}
