//! Oracle clauses evaluated on observations (DESIGN.md §3.4).

use crate::obs::*;
use std::collections::{BTreeMap, BTreeSet};

/// C12: the navigational views agree (clause 5).  Parent links of children were already
/// checked while traversing.
pub fn check_tree(obs: &ObsMap) -> Vec<Fail> {
    let mut fails = vec![];
    for (key, n) in obs {
        let mut seen = BTreeSet::new();
        for c in &n.children {
            if !seen.insert(*c) {
                fails.push(Fail::new("C12", "child-twice", format!("{} lists child {} twice", key, c)));
            }
        }
        if n.has_child != !n.children.is_empty() {
            fails.push(Fail::new(
                "C12",
                "has-child",
                format!("{} has_child()={} but child list has {} entries", key, n.has_child, n.children.len()),
            ));
        }
        if n.first != n.children.first().cloned() {
            fails.push(Fail::new(
                "C12",
                "first-child",
                format!("{} first_child()={:?} but child list starts with {:?}", key, n.first, n.children.first()),
            ));
        }
        if n.last != n.children.last().cloned() {
            fails.push(Fail::new(
                "C12",
                "last-child",
                format!("{} last_child()={:?} but child list ends with {:?}", key, n.last, n.children.last()),
            ));
        }
        for (i, c) in n.children.iter().enumerate() {
            let want_prev = if i > 0 { Some(n.children[i - 1]) } else { None };
            let want_next = n.children.get(i + 1).cloned();
            if n.prevs.get(i).cloned().flatten() != want_prev {
                fails.push(Fail::new(
                    "C12",
                    "previous-sibling",
                    format!(
                        "child {} of {} (index {}) reports previous_sibling {:?}, child list says {:?}",
                        c, key, i, n.prevs.get(i).cloned().flatten(), want_prev
                    ),
                ));
            }
            if n.nexts.get(i).cloned().flatten() != want_next {
                fails.push(Fail::new(
                    "C12",
                    "next-sibling",
                    format!(
                        "child {} of {} (index {}) reports next_sibling {:?}, child list says {:?}",
                        c, key, i, n.nexts.get(i).cloned().flatten(), want_next
                    ),
                ));
            }
        }
        if n.kind == OKind::Document {
            let els = n.children.iter().filter(|c| obs.get(c).map(|o| o.kind == OKind::Element).unwrap_or(false)).count();
            let dts = n.children.iter().filter(|c| obs.get(c).map(|o| o.kind == OKind::DocType).unwrap_or(false)).count();
            if els > 1 {
                fails.push(Fail::new("C12", "two-document-elements", format!("document {} has {} element children", key, els)));
            }
            if dts > 1 {
                fails.push(Fail::new("C12", "two-doctypes", format!("document {} has {} doctype children", key, dts)));
            }
        }
    }
    fails
}

/// C14 clause 6: order keys along the pre-order walk of every attached document.
pub fn check_order(obs: &ObsMap) -> Vec<Fail> {
    let mut fails = vec![];
    for (key, n) in obs {
        if n.kind != OKind::Document {
            continue;
        }
        // explicit pre-order walk: element, its attributes (by key), its children
        let mut seq: Vec<(Key, usize, &'static str)> = vec![];
        let mut stack: Vec<Key> = vec![*key];
        let mut guard = 0;
        while let Some(k) = stack.pop() {
            guard += 1;
            if guard > 100000 {
                break;
            }
            let o = match obs.get(&k) {
                Some(o) => o,
                None => continue,
            };
            if o.kind == OKind::Attr {
                continue;
            }
            seq.push((k, o.order, "node"));
            // attributes present through a DTD default are attribute nodes of the element too
            let mut dflt: Vec<usize> = o.attrs.iter().filter(|a| a.key.id == 0).map(|a| a.order).collect();
            dflt.sort();
            if dflt.iter().any(|d| *d == 0) || dflt.windows(2).any(|w| w[0] == w[1]) {
                fails.push(Fail::new(
                    "C14",
                    "defaulted_attr_order_zero",
                    format!("the attributes of {} present through DTD defaults have order keys {:?} (zero or not distinct)", k, dflt),
                ));
            }
            let mut attrs: Vec<(usize, Key)> = o.attrs.iter().filter(|a| a.key.id != 0).map(|a| (a.order, a.key)).collect();
            attrs.sort();
            for (ord, ak) in attrs {
                seq.push((ak, ord, "attribute"));
                // the pieces of the attribute's value follow it (and precede the next attribute)
                if let Some(ao) = obs.get(&ak) {
                    for pk in &ao.children {
                        if let Some(po) = obs.get(pk) {
                            seq.push((*pk, po.order, "attribute value piece"));
                        }
                    }
                }
            }
            for c in o.children.iter().rev() {
                stack.push(*c);
            }
        }
        let mut prev: Option<(Key, usize)> = None;
        for (k, ord, what) in seq {
            if ord == 0 {
                fails.push(Fail::new("C14", "order-zero", format!("attached {} {} has order key 0", what, k)));
                break;
            }
            if let Some((pk, pord)) = prev {
                if ord <= pord {
                    fails.push(Fail::new(
                        "C14",
                        "order-preorder",
                        format!("{} {} has key {} but its pre-order predecessor {} has key {}", what, k, ord, pk, pord),
                    ));
                    break;
                }
            }
            prev = Some((k, ord));
        }
    }
    fails
}

/// Observation with absolute order keys replaced by ranks among attached nodes
/// (a failed call may renumber, it may not reorder).
pub fn normalise(obs: &ObsMap) -> ObsMap {
    let mut keys: BTreeSet<usize> = BTreeSet::new();
    for n in obs.values() {
        if n.attached {
            keys.insert(n.order);
            for a in &n.attrs {
                keys.insert(a.order);
            }
        }
    }
    let rank: BTreeMap<usize, usize> = keys.iter().enumerate().map(|(i, k)| (*k, if *k == 0 { 0 } else { i + 1 })).collect();
    let mut out = ObsMap::new();
    for (k, n) in obs {
        let mut m = n.clone();
        m.order = if n.attached { *rank.get(&n.order).unwrap_or(&0) } else { 0 };
        for a in m.attrs.iter_mut() {
            a.order = if n.attached { *rank.get(&a.order).unwrap_or(&0) } else { 0 };
        }
        out.insert(*k, m);
    }
    out
}

pub fn first_diff(a: &ObsMap, b: &ObsMap) -> Option<String> {
    for (k, x) in a {
        match b.get(k) {
            None => return Some(format!("node {} disappeared (was {:?} {:?})", k, x.kind, x.name)),
            Some(y) => {
                if x != y {
                    let mut what = vec![];
                    if x.parent != y.parent {
                        what.push(format!("parent {:?} -> {:?}", x.parent, y.parent));
                    }
                    if x.children != y.children {
                        what.push(format!("children {:?} -> {:?}", x.children, y.children));
                    }
                    if x.value != y.value {
                        what.push(format!("value {:?} -> {:?}", x.value, y.value));
                    }
                    if x.attrs != y.attrs {
                        what.push(format!("attributes {:?} -> {:?}", x.attrs, y.attrs));
                    }
                    if x.order != y.order {
                        what.push(format!("order rank {} -> {}", x.order, y.order));
                    }
                    if x.prevs != y.prevs || x.nexts != y.nexts {
                        what.push("sibling links".to_string());
                    }
                    if x.attached != y.attached {
                        what.push(format!("attached {} -> {}", x.attached, y.attached));
                    }
                    if what.is_empty() {
                        what.push("other accessor".into());
                    }
                    return Some(format!("node {}: {}", k, what.join("; ")));
                }
            }
        }
    }
    for (k, y) in b {
        if !a.contains_key(k) {
            return Some(format!("node {} appeared ({:?} {:?})", k, y.kind, y.name));
        }
    }
    None
}

/// C13 clause 4: the implementation's state equals the reference model's.
pub fn compare(obs: &ObsMap, exp: &ExpectMap) -> Option<String> {
    for (k, e) in exp {
        let o = match obs.get(k) {
            Some(o) => o,
            None => return Some(format!("model node {} ({:?} {:?}) is not reachable in the implementation", k, e.kind, e.name)),
        };
        if o.kind != e.kind {
            return Some(format!("{}: kind {:?}, model {:?}", k, o.kind, e.kind));
        }
        if o.name != e.name {
            return Some(format!("{}: name {:?}, model {:?}", k, o.name, e.name));
        }
        if !e.value_free && o.value != e.value {
            return Some(format!("{}: value {:?}, model {:?}", k, o.value, e.value));
        }
        if e.kind != OKind::Attr && o.parent != e.parent {
            return Some(format!("{}: parent_node {:?}, model {:?}", k, o.parent, e.parent));
        }
        if o.children != e.children {
            return Some(format!("{}: child_nodes {:?}, model {:?}", k, o.children, e.children));
        }
        if e.kind == OKind::Element {
            let real: Vec<(String, String, Key)> =
                o.attrs.iter().filter(|a| a.key.id != 0).map(|a| (a.name.clone(), a.value.clone(), a.key)).collect();
            let mut real_sorted = real.clone();
            real_sorted.sort();
            let names_keys_real: Vec<(String, Key)> = real_sorted.iter().map(|a| (a.0.clone(), a.2)).collect();
            let names_keys_model: Vec<(String, Key)> = e.attrs.iter().map(|a| (a.0.clone(), a.2)).collect();
            if names_keys_real != names_keys_model {
                return Some(format!("{}: attributes {:?}, model {:?}", k, names_keys_real, names_keys_model));
            }
            for a in &e.attrs {
                let free = exp.get(&a.2).map(|x| x.value_free).unwrap_or(false);
                if free {
                    continue;
                }
                let rv = real_sorted.iter().find(|r| r.2 == a.2).map(|r| r.1.clone());
                if rv.as_ref() != Some(&a.1) {
                    return Some(format!("{}: attribute {} has value {:?}, model {:?}", k, a.0, rv, a.1));
                }
            }
            let mut real_defaults: Vec<(String, String)> = o.attrs.iter().filter(|a| a.key.id == 0).map(|a| (a.name.clone(), a.value.clone())).collect();
            real_defaults.sort();
            if real_defaults != e.defaults {
                return Some(format!("{}: attributes present through DTD defaults {:?}, model {:?}", k, real_defaults, e.defaults));
            }
            for a in &o.attrs {
                if a.key.id == 0 && a.specified {
                    return Some(format!("{}: defaulted attribute {} reports specified()=true", k, a.name));
                }
                if a.key.id != 0 && !a.specified {
                    return Some(format!("{}: attribute {} attached to the element reports specified()=false", k, a.name));
                }
            }
        }
        if o.attached != e.attached {
            return Some(format!("{}: attached to a document = {}, model {}", k, o.attached, e.attached));
        }
    }
    for (k, o) in obs {
        if !exp.contains_key(k) {
            if k.id == 0 || o.kind == OKind::Other {
                continue;
            }
            return Some(format!("implementation node {} ({:?} {:?}) is unknown to the model", k, o.kind, o.name));
        }
    }
    None
}
