//! The simulated world: the real library objects, the reference model, and the per-step oracles.

use crate::model::*;
use crate::obs::*;
use crate::oracle;
use crate::real::*;
use crate::rng::fnv;
use crate::step::*;
use crate::xmlchars::*;
use std::collections::BTreeMap;
use xml_dom::{AsNode, AsStringValue, Attr, CharacterData, Document, DocumentType, NamedNodeMap, Node, NodeList, ProcessingInstruction, XmlDocument, XmlNode};

#[derive(Clone, Debug)]
pub struct Cfg {
    pub limit: usize,
    /// persist/recover after every successful mutator (clause 8)
    pub c15_each: bool,
    /// differential queries (clause 9) after every successful mutator
    pub c14_diff_each: bool,
    /// node-set expressions for the differential oracle, with namespace bindings
    pub diff_pool: Vec<String>,
    pub diff_ns: Vec<(String, String)>,
    /// clauses switched off because a listed known finding names them as its trigger (state-based
    /// findings: the defect shows in an observation, not in the outcome of one call).  Empty in replays.
    pub gates: Vec<String>,
}

impl Default for Cfg {
    fn default() -> Cfg {
        Cfg { limit: 2000, c15_each: true, c14_diff_each: false, diff_pool: vec![], diff_ns: vec![], gates: vec![] }
    }
}

/// clause names that exist only as gated clauses (each is also the trigger name of its finding)
pub const GATED_CLAUSES: &[&str] =
    &["defaulted_attr_child_parent", "defaulted_attr_order_zero", "nontext_normal_queries", "expanded_raw_piece_navigation", "no_document_element"];

#[derive(Clone, Debug, Default)]
pub struct StepReport {
    pub executed: bool,
    pub outcome: String,
    pub fails: Vec<Fail>,
    pub digest: u64,
    pub success_mutation: bool,
    pub failed_call: bool,
    pub illegal: bool,
    pub probes: Vec<&'static str>,
    /// panic in a call that no claimed property covers (queries): ends the run, not a violation
    pub unclaimed_panic: Option<String>,
}

pub struct World {
    pub real: Real,
    pub model: Model,
    pub cfg: Cfg,
    pub last: ObsMap,
    pub last_ser: Vec<Option<String>>,
    pub pristine: Vec<XmlDocument>,
    pub pristine_sig: Vec<String>,
    pub successes: usize,
    /// slots written by a task other than the current one, most recent first (F4 bias)
    pub recent_touch: Vec<(usize, S)>,
    /// clauses that already fail on the freshly parsed documents (the empty history)
    pub initial_fails: Vec<Fail>,
}

/// `<!ATTLIST el att CDATA "v">` and `#FIXED "v"` declarations of the internal subset (the forms the generator writes)
pub fn parse_attlist_defaults(text: &str) -> Vec<(String, String, String)> {
    let mut out = vec![];
    let mut rest = text;
    while let Some(i) = rest.find("<!ATTLIST ") {
        rest = &rest[i + 10..];
        let end = match rest.find('>') {
            Some(e) => e,
            None => break,
        };
        let decl = &rest[..end];
        // element name, then any number of `name type default` definitions (the generator writes CDATA types and
        // the defaults `"v"`, `#FIXED "v"`, `#IMPLIED`, `#REQUIRED`); a value may contain white space
        let mut toks: Vec<String> = vec![];
        let mut cur = String::new();
        let mut quote: Option<char> = None;
        for c in decl.chars() {
            match quote {
                Some(q) => {
                    cur.push(c);
                    if c == q {
                        quote = None;
                        toks.push(std::mem::take(&mut cur));
                    }
                }
                None if c == '"' || c == '\'' => {
                    if !cur.is_empty() {
                        toks.push(std::mem::take(&mut cur));
                    }
                    cur.push(c);
                    quote = Some(c);
                }
                None if c.is_whitespace() => {
                    if !cur.is_empty() {
                        toks.push(std::mem::take(&mut cur));
                    }
                }
                None => cur.push(c),
            }
        }
        if !cur.is_empty() {
            toks.push(cur);
        }
        if toks.is_empty() {
            continue;
        }
        let el = toks[0].clone();
        let mut i = 1;
        while i + 2 < toks.len() + 0 && i + 1 < toks.len() {
            let att = toks[i].clone();
            // toks[i + 1] is the type
            let mut j = i + 2;
            if j >= toks.len() {
                break;
            }
            if toks[j] == "#IMPLIED" || toks[j] == "#REQUIRED" {
                i = j + 1;
                continue;
            }
            if toks[j] == "#FIXED" {
                j += 1;
            }
            if j < toks.len() && toks[j].len() >= 2 && (toks[j].starts_with('"') || toks[j].starts_with('\'')) {
                let v = &toks[j][1..toks[j].len() - 1];
                out.push((el.clone(), att, v.to_string()));
            }
            i = j + 1;
        }
    }
    out
}

/// what enumerating the entity and notation maps of the document type reports, in enumeration order
fn dtd_maps_sig(d: &XmlDocument) -> String {
    use xml_dom::{DocumentType, Entity, Notation};
    let mut s = String::new();
    if let Some(dt) = d.doc_type() {
        let ents = dt.entities();
        for i in 0..ents.length() {
            if let Some(e) = ents.item(i) {
                s.push_str(&format!("|E{}:{}:{:?}:{:?}:{:?}", i, e.node_name(), e.public_id(), e.system_id(), e.notation_name()));
            }
        }
        for e in ents.iter() {
            s.push_str(&format!("|e:{}", e.node_name()));
        }
        let nots = dt.notations();
        for i in 0..nots.length() {
            if let Some(n) = nots.item(i) {
                s.push_str(&format!("|N{}:{}:{:?}:{:?}", i, n.node_name(), n.public_id(), n.system_id()));
            }
        }
    }
    s
}

fn sig_of(d: &XmlDocument) -> String {
    let mut s = format!("{}", d);
    s.push_str(&dtd_maps_sig(d));
    let mut stack = vec![d.as_node()];
    let mut guard = 0;
    while let Some(n) = stack.pop() {
        guard += 1;
        if guard > 5000 {
            break;
        }
        s.push_str(&format!("|{}:{}", n.id(), n.order()));
        if let Some(m) = n.attributes() {
            for a in m.iter() {
                let an = a.as_node();
                s.push_str(&format!("|@{}:{}", an.id(), an.order()));
            }
        }
        let kids: Vec<XmlNode> = n.child_nodes().iter().collect();
        for c in kids.into_iter().rev() {
            stack.push(c);
        }
    }
    s
}

/// Canonical content of a document as the DOM accessors report it (clause 8).
pub fn canon_doc(d: &XmlDocument) -> Result<String, String> {
    guarded(|| {
        let mut out = String::new();
        canon_children(&d.as_node(), &mut out, 0, false);
        out
    })
}

/// The same with element and attribute names expanded to `{namespace}local` (clisim).
pub fn canon_doc_ns(d: &XmlDocument) -> Result<String, String> {
    guarded(|| {
        let mut out = String::new();
        canon_children(&d.as_node(), &mut out, 0, true);
        out
    })
}

fn expanded<T: xml_dom::AsExpandedName>(n: &T, fallback: String) -> String {
    // the library reports the pseudo-prefix "xmlns" for unprefixed names
    match n.as_expanded_name() {
        Ok(Some((local, _, Some(uri)))) if !uri.is_empty() => format!("{{{}}}{}", uri, local),
        Ok(Some((local, Some(p), _))) if p != "xmlns" => format!("{{!unbound}}{}", local),
        Ok(Some((local, _, _))) => local,
        Ok(None) => fallback,
        Err(_) => format!("{{!unbound}}{}", fallback),
    }
}

fn canon_children(n: &XmlNode, out: &mut String, depth: usize, ns: bool) {
    if depth > 200 {
        out.push_str("<TOO-DEEP>");
        return;
    }
    let mut run: Option<String> = None;
    let flush = |run: &mut Option<String>, out: &mut String| {
        if let Some(r) = run.take() {
            if !r.is_empty() {
                out.push_str(&format!("T({:?})", r));
            }
        }
    };
    for c in n.child_nodes().iter() {
        match &c {
            XmlNode::Text(t) => {
                run.get_or_insert_with(String::new).push_str(&t.data().unwrap_or_else(|e| format!("<ERR {}>", e)));
            }
            XmlNode::ExpandedText(t) => {
                run.get_or_insert_with(String::new).push_str(&t.data().unwrap_or_else(|e| format!("<ERR {}>", e)));
            }
            XmlNode::EntityReference(r) => {
                run.get_or_insert_with(String::new).push_str(&r.value().unwrap_or_else(|e| format!("<ERR {}>", e)));
            }
            XmlNode::CData(t) => {
                flush(&mut run, out);
                out.push_str(&format!("C({:?})", t.data().unwrap_or_else(|e| format!("<ERR {}>", e))));
            }
            XmlNode::Comment(t) => {
                flush(&mut run, out);
                out.push_str(&format!("M({:?})", t.data().unwrap_or_else(|e| format!("<ERR {}>", e))));
            }
            XmlNode::PI(p) => {
                flush(&mut run, out);
                out.push_str(&format!("P({:?},{:?})", p.target(), p.data()));
            }
            XmlNode::DocumentType(t) => {
                flush(&mut run, out);
                out.push_str(&format!("D({:?})", t.name()));
            }
            XmlNode::Element(e) => {
                flush(&mut run, out);
                let ename = if ns { expanded(e, c.node_name()) } else { c.node_name() };
                out.push_str(&format!("E({:?}", ename));
                let mut attrs: Vec<(String, String)> = vec![];
                if let Some(m) = e.attributes() {
                    for a in m.iter() {
                        let aname = if ns { expanded(&a, a.name()) } else { a.name() };
                        attrs.push((aname, a.value().unwrap_or_else(|e| format!("<ERR {}>", e))));
                    }
                }
                attrs.sort();
                for (k, v) in attrs {
                    out.push_str(&format!(" {}={:?}", k, v));
                }
                out.push('[');
                canon_children(&c, out, depth + 1, ns);
                out.push_str("])");
            }
            other => {
                flush(&mut run, out);
                out.push_str(&format!("?({})", other.node_name()));
            }
        }
    }
    flush(&mut run, out);
}

/// Locators of nodes in the normalised view of a document (clause 9).
fn locators(d: &XmlDocument, doc: usize) -> BTreeMap<usize, String> {
    let mut map = BTreeMap::new();
    fn walk(n: &XmlNode, path: &str, map: &mut BTreeMap<usize, String>, depth: usize) {
        if depth > 200 {
            return;
        }
        map.insert(n.id(), path.to_string());
        if let Some(m) = n.attributes() {
            for a in m.iter() {
                let an = a.as_node();
                if an.id() != 0 {
                    map.insert(an.id(), format!("{}/@{}", path, a.name()));
                }
            }
        }
        let mut idx = 0usize;
        let mut in_run = false;
        let mut run_nonempty = false;
        let mut run_ids: Vec<usize> = vec![];
        let kids: Vec<XmlNode> = n.child_nodes().iter().collect();
        let close = |idx: &mut usize, run_ids: &mut Vec<usize>, nonempty: bool, map: &mut BTreeMap<usize, String>, path: &str| {
            if !run_ids.is_empty() {
                if nonempty {
                    for id in run_ids.iter() {
                        map.insert(*id, format!("{}/t{}", path, *idx));
                    }
                    *idx += 1;
                } else {
                    for id in run_ids.iter() {
                        map.insert(*id, "<empty-text>".to_string());
                    }
                }
                run_ids.clear();
            }
        };
        for c in kids {
            let textlike = matches!(c, XmlNode::Text(_) | XmlNode::ExpandedText(_) | XmlNode::EntityReference(_));
            if textlike {
                in_run = true;
                let nonempty = match &c {
                    XmlNode::Text(t) => !t.data().unwrap_or_default().is_empty(),
                    XmlNode::ExpandedText(t) => !t.data().unwrap_or_default().is_empty(),
                    _ => true,
                };
                run_nonempty = run_nonempty || nonempty;
                run_ids.push(c.id());
            } else {
                if in_run {
                    close(&mut idx, &mut run_ids, run_nonempty, map, path);
                    in_run = false;
                    run_nonempty = false;
                }
                let p = format!("{}/{}", path, idx);
                idx += 1;
                walk(&c, &p, map, depth + 1);
            }
        }
        if in_run {
            close(&mut idx, &mut run_ids, run_nonempty, map, path);
        }
    }
    let _ = doc;
    walk(&d.as_node(), "", &mut map, 0);
    map
}

fn locate(v: &QVal, d: &XmlDocument, doc: usize, nodes: &Option<Vec<XmlNode>>) -> String {
    match (v, nodes) {
        (QVal::Nodes(_), Some(ns)) => {
            let map = locators(d, doc);
            let mut out: Vec<String> = vec![];
            for n in ns {
                let l = match n {
                    XmlNode::Namespace(_) => format!("ns:{}", n.node_name()),
                    _ => map.get(&n.id()).cloned().unwrap_or_else(|| format!("<unlocated #{}>", n.id())),
                };
                if l == "<empty-text>" {
                    continue;
                }
                if out.last() != Some(&l) {
                    out.push(l);
                }
            }
            format!("nodes[{}]", out.join(" "))
        }
        (QVal::Num(b), _) => format!("num({})", f64::from_bits(*b)),
        (other, _) => format!("{:?}", other),
    }
}

impl World {
    pub fn setup(docs: &[(String, bool)], cfg: Cfg) -> Result<World, String> {
        let mut real = Real::new();
        let mut pristine = vec![];
        let mut pristine_sig = vec![];
        for (text, expanded) in docs {
            let dom = parse_doc(text, *expanded).map_err(|e| format!("setup: document does not parse: {}", e))?;
            let p = parse_doc(text, *expanded)?;
            pristine_sig.push(guarded(|| sig_of(&p)).map_err(|e| format!("setup: signature panicked: {}", e))?);
            pristine.push(p);
            real.docs.push(RDoc { dom, text: text.clone(), expanded: *expanded });
        }
        let (obs, fails) = real.observe(cfg.limit);
        let mut initial_fails = fails;
        let mut model = Model::new();
        for (i, d) in real.docs.iter().enumerate() {
            let root = model.add(Kind::Document, "#document", "", i);
            let id = d.dom.as_node().id();
            model.bind(root, id);
            let mut ents = vec![];
            if let Some(dt) = d.dom.doc_type() {
                for e in dt.entities().iter() {
                    ents.push((e.node_name(), String::new()));
                }
            }
            model.docs.push(MDoc { root, entities: ents, expanded: d.expanded, xml_decl: None, twin_of: None, defaults: parse_attlist_defaults(&d.text) });
            model.adopt(root, &obs);
        }
        // recursive adoption of the whole parsed tree
        let mut work: Vec<Mid> = (0..model.nodes.len()).collect();
        let mut done = std::collections::BTreeSet::new();
        while let Some(m) = work.pop() {
            if !done.insert(m) {
                continue;
            }
            model.adopt(m, &obs);
            for c in model.nodes[m].children.clone() {
                work.push(c);
            }
            for a in model.nodes[m].attrs.clone() {
                work.push(a);
            }
        }
        let mut w = World {
            real,
            model,
            cfg,
            last: obs,
            last_ser: vec![],
            pristine,
            pristine_sig,
            successes: 0,
            recent_touch: vec![],
            initial_fails: vec![],
        };
        // reading is side-effect free and repeatable (C19): a second observation of the untouched documents
        // equals the first.  (Checked before the model is compared with the parse: an enumeration whose order
        // changes from call to call would otherwise only show as a document the harness cannot mirror.)
        let mut unstable = false;
        for _ in 0..5 {
            let (again, _) = w.real.observe(w.cfg.limit);
            if let Some(d) = oracle::first_diff(&w.last, &again).or_else(|| oracle::first_diff(&again, &w.last)) {
                initial_fails.push(Fail::new("C19", "read-unstable", format!("two observations of the freshly parsed, untouched documents differ: {}", d)));
                unstable = true;
                break;
            }
        }
        if !unstable {
            if let Some(d) = oracle::compare(&w.last, &w.model.expect_all()) {
                return Err(format!("setup: model built from the parse disagrees with it: {}", d));
            }
        }
        initial_fails.extend(oracle::check_tree(&w.last));
        if initial_fails.iter().all(|f| GATED_CLAUSES.contains(&f.clause)) {
            initial_fails.extend(oracle::check_order(&w.last));
        }
        for i in 0..w.real.docs.len() {
            w.last_ser.push(w.real.serialize(i).ok());
        }
        initial_fails.retain(|f| !w.cfg.gates.iter().any(|g| g == f.clause));
        w.initial_fails = initial_fails;
        Ok(w)
    }

    pub fn digest(&self) -> u64 {
        fnv(format!("{:?}", self.last).as_bytes())
    }

    fn doc_of_slot(&self, s: S) -> Option<usize> {
        self.model.node_slot(s).map(|m| self.model.nodes[m].doc)
    }

    fn bind_out(&mut self, out: S, key: Option<Key>, expect: Option<Mid>, what: &str, prop: &'static str, fails: &mut Vec<Fail>) {
        match (key, expect) {
            (Some(k), Some(m)) => {
                let got = self.model.mid_of(k);
                if got != Some(m) {
                    fails.push(Fail::new(
                        prop,
                        "return-value",
                        format!("{} returned node {} but DOM Level 1 says {}", what, k, self.model.key(m).map(|k| k.to_string()).unwrap_or("?".into())),
                    ));
                    self.model.clear_slot(out);
                    self.real.clear(out);
                } else {
                    self.set_node_slot(out, m);
                }
            }
            (None, None) => {
                self.model.clear_slot(out);
                self.real.clear(out);
            }
            (Some(k), None) => {
                fails.push(Fail::new(prop, "return-value", format!("{} returned node {} but DOM Level 1 says none", what, k)));
                self.model.clear_slot(out);
                self.real.clear(out);
            }
            (None, Some(m)) => {
                fails.push(Fail::new(
                    prop,
                    "return-value",
                    format!("{} returned nothing but DOM Level 1 says {}", what, self.model.key(m).map(|k| k.to_string()).unwrap_or("?".into())),
                ));
                self.model.clear_slot(out);
                self.real.clear(out);
            }
        }
    }

    /// bind a slot to the model node the returned handle denotes; a merged text handle denotes a run
    fn set_node_slot(&mut self, out: S, m: Mid) {
        let merged = matches!(self.real.node(out), Some((XmlNode::ExpandedText(_), _)));
        if merged {
            let run = self.model.run_of(m).unwrap_or_else(|| vec![m]);
            self.model.set_slot(out, MSlot::Run(run));
            self.model.born.insert(out, self.model.gen);
        } else {
            self.model.set_slot(out, MSlot::Node(m));
        }
    }

    /// lookup of an attribute that exists only through a DTD default: the handle is a synthesized node (id 0)
    fn default_lookup(&mut self, e: Mid, name: &str, rkey: Option<Key>, out: S, what: &str, fails: &mut Vec<Fail>) -> bool {
        if self.model.find_attr(e, name).is_some() {
            return false;
        }
        let has_default = self.model.default_attrs(e).iter().any(|(k, _)| k == name);
        if !has_default {
            return false;
        }
        match rkey {
            Some(k) if k.id == 0 => {}
            other => fails.push(Fail::new("C12", "navigation", format!("{}({:?}) returned {:?} but the element has that attribute through a DTD default", what, name, other))),
        }
        self.model.clear_slot(out);
        self.real.clear(out);
        true
    }

    /// which handles of a snapshot slot are merged text nodes
    fn vec_flags(&self, out: S) -> Vec<bool> {
        match self.real.slots.get(out).and_then(|v| v.as_ref()) {
            Some(RSlot::Vec { nodes, .. }) => nodes.iter().map(|n| matches!(n, XmlNode::ExpandedText(_))).collect(),
            _ => vec![],
        }
    }

    /// the model node a navigation call is made on: a node, or the head of a still intact run
    fn nav_node(&self, s: S) -> Option<Mid> {
        match self.model.slot(s) {
            Some(MSlot::Node(m)) => Some(*m),
            Some(MSlot::Run(r)) if self.model.run_intact(r) => Some(r[0]),
            _ => None,
        }
    }

    /// children as the DOM view of this document presents them
    fn view_children(&self, m: Mid) -> Vec<Mid> {
        self.model.view_heads(m)
    }

    fn predict_nav(&self, m: Mid, which: NavKind) -> Option<Option<Mid>> {
        let n = &self.model.nodes[m];
        Some(match which {
            NavKind::Parent => {
                if n.kind == Kind::Attr {
                    None
                } else {
                    n.parent
                }
            }
            NavKind::First => self.view_children(m).first().cloned(),
            NavKind::Last => self.view_children(m).last().cloned(),
            NavKind::Prev | NavKind::Next => {
                if n.kind == Kind::Attr {
                    return Some(None);
                }
                if let Some(run) = self.model.run_of(m) {
                    if run[0] != m {
                        // a raw piece inside a merged run is not a node of the view: not judged
                        return None;
                    }
                }
                match n.parent {
                    None => None,
                    Some(p) => {
                        let sibs = self.view_children(p);
                        let i = sibs.iter().position(|c| *c == m)?;
                        if which == NavKind::Prev {
                            if i > 0 {
                                Some(sibs[i - 1])
                            } else {
                                None
                            }
                        } else {
                            sibs.get(i + 1).cloned()
                        }
                    }
                }
            }
            NavKind::DocElement => {
                if n.kind != Kind::Document {
                    return None;
                }
                n.children.iter().cloned().find(|c| self.model.nodes[*c].kind == Kind::Element)
            }
            NavKind::OwnerDoc => {
                if n.kind == Kind::Document {
                    None
                } else {
                    Some(self.model.docs[n.doc].root)
                }
            }
        })
    }

    /// Execute one resolved step and evaluate every oracle clause on the resulting state.
    /// Fault F5: restart from the only durable form a document has — its serialisation.  Every handle
    /// into the document is lost, the document is re-parsed, the model is rebuilt from the recovered
    /// document, and the history continues on it.
    fn restart(&mut self, doc: usize) -> StepReport {
        let mut rep = StepReport::default();
        if doc >= self.real.docs.len() || !self.model.has_document_element(doc) {
            rep.outcome = "skipped".into();
            return rep;
        }
        let expanded = self.real.docs[doc].expanded;
        let ser = match self.real.serialize(doc) {
            Ok(s) => s,
            Err(_) => {
                rep.outcome = "skipped".into();
                return rep;
            }
        };
        let live_canon = canon_doc(&self.real.docs[doc].dom);
        rep.executed = true;
        rep.outcome = "ok".into();
        let new = match guarded(|| parse_doc(&ser, expanded)) {
            Ok(Ok(d)) => d,
            Ok(Err(e)) => {
                rep.fails.push(Fail::new("C15", "reparse-rejected", format!("restart: the parser rejects the serialisation: {} (text {:?})", e, ser)));
                return rep;
            }
            Err(p) => {
                rep.fails.push(Fail::new("C15", "reparse-panic", format!("restart: re-parsing panicked: {}", p)));
                return rep;
            }
        };
        if let (Ok(a), Ok(b)) = (live_canon, canon_doc(&new)) {
            if a != b {
                rep.fails.push(Fail::new("C15", "content-differs", format!("restart: DOM reported {} but the recovered document is {}", a, b)));
                return rep;
            }
        }
        // the crash: every handle into this document is gone
        for i in 0..self.real.slots.len() {
            let gone = match &self.real.slots[i] {
                Some(RSlot::Node { doc: d, .. }) | Some(RSlot::Vec { doc: d, .. }) | Some(RSlot::List { doc: d, .. }) | Some(RSlot::TagList { doc: d, .. }) | Some(RSlot::Map { doc: d, .. }) => *d == doc,
                _ => false,
            };
            if gone {
                self.real.slots[i] = None;
                self.model.clear_slot(i);
            }
        }
        self.real.docs[doc].dom = new;
        // rebuild the model of this document from the recovered one
        for n in self.model.nodes.iter_mut() {
            if n.doc == doc {
                n.dead = true;
            }
        }
        let keys: Vec<Key> = self.model.by_key.keys().cloned().filter(|k| k.doc == doc).collect();
        for k in keys {
            self.model.by_key.remove(&k);
        }
        let (obs, tfails) = self.real.observe(self.cfg.limit);
        rep.fails.extend(tfails);
        let root = self.model.add(Kind::Document, "#document", "", doc);
        let id = self.real.docs[doc].dom.as_node().id();
        self.model.bind(root, id);
        self.model.docs[doc].root = root;
        let mut work = vec![root];
        let mut done = std::collections::BTreeSet::new();
        while let Some(m) = work.pop() {
            if !done.insert(m) {
                continue;
            }
            self.model.adopt(m, &obs);
            for c in self.model.nodes[m].children.clone() {
                work.push(c);
            }
            for a in self.model.nodes[m].attrs.clone() {
                work.push(a);
            }
        }
        self.model.gen += 1;
        rep.fails.extend(oracle::check_tree(&obs));
        if rep.fails.iter().all(|f| GATED_CLAUSES.contains(&f.clause)) {
            rep.fails.extend(oracle::check_order(&obs));
        }
        if let Some(d) = oracle::compare(&obs, &self.model.expect_all()) {
            rep.fails.push(Fail::new("C15", "restart-model", format!("after restart the model rebuilt from the recovered document disagrees with it: {}", d)));
        }
        self.last = obs;
        self.last_ser = (0..self.real.docs.len()).map(|i| self.real.serialize(i).ok()).collect();
        rep.probes.push("F5_restart_from_serialisation");
        rep.digest = self.digest();
        let mut fails = std::mem::take(&mut rep.fails);
        self.drop_gated(&mut fails, &mut rep);
        rep.fails = fails;
        rep
    }

    /// Canned probes (Op::Probe) on a private parse of what the document serialises to now.
    fn probe(&mut self, doc: usize, which: usize) -> StepReport {
        use xml_dom::{AttrMut, DocumentType, Element, NodeMut};
        let mut rep = StepReport::default();
        let ser = match self.last_ser.get(doc) {
            Some(Some(s)) => s.clone(),
            _ => {
                rep.outcome = "skipped".into();
                return rep;
            }
        };
        let expanded = self.real.docs.get(doc).map(|d| d.expanded).unwrap_or(false);
        let d = match guarded(|| parse_doc(&ser, expanded)) {
            Ok(Ok(d)) => d,
            _ => {
                rep.outcome = "skipped".into();
                return rep;
            }
        };
        rep.executed = true;
        rep.outcome = "ok".into();
        // the first element (document order) that has an attribute through a DTD default, with that attribute
        let find_default = |d: &XmlDocument| -> Option<(xml_dom::XmlElement, xml_dom::XmlAttr)> {
            let mut stack: Vec<XmlNode> = d.as_node().child_nodes().iter().collect();
            stack.reverse();
            let mut guard = 0;
            while let Some(n) = stack.pop() {
                guard += 1;
                if guard > 2000 {
                    break;
                }
                if let XmlNode::Element(e) = &n {
                    if let Some(m) = n.attributes() {
                        for a in m.iter() {
                            if a.as_node().id() == 0 {
                                return Some((e.clone(), a));
                            }
                        }
                    }
                    let mut kids: Vec<XmlNode> = n.child_nodes().iter().collect();
                    kids.reverse();
                    stack.extend(kids);
                }
            }
            None
        };
        match which {
            0 | 1 | 2 => {
                let (el, attr) = match guarded(|| find_default(&d)) {
                    Ok(Some(x)) => x,
                    _ => {
                        rep.outcome = "skipped".into();
                        rep.executed = false;
                        return rep;
                    }
                };
                let name = attr.name();
                rep.probes.push("defaulted_attribute_object_probed");
                match which {
                    0 => {
                        let r = guarded(|| match attr.as_node().first_child() {
                            Some(piece) => el.append_child(piece).map(|_| ()),
                            None => Ok(()),
                        });
                        if let Err(p) = r {
                            rep.fails.push(Fail::new("C13", "panic", format!("append_child(value piece of the DTD-defaulted attribute {}) panicked: {}", name, p)));
                        }
                    }
                    1 => {
                        let r = guarded(|| attr.set_value("changed").map(|_| el.get_attribute(&name)));
                        match r {
                            Err(p) => rep.fails.push(Fail::new("C13", "panic", format!("set_value on the DTD-defaulted attribute {} panicked: {}", name, p))),
                            Ok(Ok(v)) if v != "changed" => rep.fails.push(Fail::new(
                                "C13",
                                "effect",
                                format!("set_value(\"changed\") on the DTD-defaulted attribute {} returned Ok, but the element still reports {:?}", name, v),
                            )),
                            _ => {}
                        }
                    }
                    _ => {
                        let before = guarded(|| d.doc_type().map(|t| format!("{}", t)).unwrap_or_default()).unwrap_or_default();
                        let r = guarded(|| match attr.as_node().first_child() {
                            Some(XmlNode::Text(t)) => {
                                use xml_dom::CharacterDataMut;
                                t.set_data("changed").map(|_| ())
                            }
                            _ => Ok(()),
                        });
                        let after = guarded(|| d.doc_type().map(|t| format!("{}", t)).unwrap_or_default()).unwrap_or_default();
                        match r {
                            Err(p) => rep.fails.push(Fail::new("C13", "panic", format!("set_data on the value piece of the DTD-defaulted attribute {} panicked: {}", name, p))),
                            Ok(Ok(())) if before != after => rep.fails.push(Fail::new(
                                "C13",
                                "effect",
                                format!("set_data on the value piece of one element's defaulted attribute {} rewrote the document type: {:?} -> {:?}", name, before, after),
                            )),
                            _ => {}
                        }
                    }
                }
            }
            _ => {
                let r = guarded(|| {
                    let dt = match d.doc_type() {
                        Some(t) => t,
                        None => return None,
                    };
                    let n = dt.notations().item(0)?;
                    let dtn = dt.as_node();
                    let _ = d.remove_child(&dtn);
                    drop(dtn);
                    drop(dt);
                    Some((n.next_sibling().map(|x| x.id()), n.previous_sibling().map(|x| x.id())))
                });
                match r {
                    Err(p) => rep.fails.push(Fail::new("C12", "accessor-panic", format!("next_sibling()/previous_sibling() of a notation panicked after its document type was removed: {}", p))),
                    Ok(None) => {
                        rep.outcome = "skipped".into();
                        rep.executed = false;
                    }
                    Ok(Some(_)) => rep.probes.push("notation_navigated_after_doctype_removal"),
                }
            }
        }
        rep.digest = self.digest();
        rep
    }

    pub fn exec_step(&mut self, step: &Step) -> StepReport {
        if let Op::Restart { doc } = &step.op {
            return self.restart(*doc);
        }
        if let Op::Probe { doc, which } = &step.op {
            return self.probe(*doc, *which);
        }
        let mut rep = StepReport::default();
        let plan = self.model.plan(step);
        if plan.skip {
            rep.outcome = "skipped".into();
            return rep;
        }
        // expanded-view documents: only a restricted set of operations is modelled
        let pre_raw = self.last.clone();
        let pre = oracle::normalise(&pre_raw);
        let pre_ser = self.last_ser.clone();
        let outcome = self.real.exec(step);
        if outcome == Outcome::Skipped {
            rep.outcome = "skipped".into();
            return rep;
        }
        rep.executed = true;
        rep.illegal = plan.illegal;
        let mutator = step.is_mutator();
        // "hot" query pair: directly after a successful mutator and BEFORE the harness observes anything (the
        // observation itself reads order keys and would refresh every lazily maintained table): the first
        // evaluation after an edit must give what the second gives
        let mut hot_fail: Option<Fail> = None;
        if mutator && matches!(outcome, Outcome::Ok(_)) && !self.cfg.diff_pool.is_empty() && self.successes % 2 == 0 {
            let q = self.cfg.diff_pool[(self.successes / 2) % self.cfg.diff_pool.len()].clone();
            let ns = self.cfg.diff_ns.clone();
            for d in 0..self.real.docs.len() {
                let dom = self.real.docs[d].dom.clone();
                let mut c1 = make_ctx(&ns);
                let (v1, _) = run_query(&dom, &q, &mut c1, d);
                let mut c2 = make_ctx(&ns);
                let (v2, _) = run_query(&dom, &q, &mut c2, d);
                if matches!(v1, QVal::Panic(_)) || matches!(v2, QVal::Panic(_)) {
                    continue;
                }
                if v1 != v2 {
                    hot_fail = Some(Fail::new(
                        "C19",
                        "first-query-after-edit",
                        format!("query {:?} evaluated twice right after {}: first {:?}, then {:?}", q, step.op_name(), v1, v2),
                    ));
                    break;
                }
            }
            rep.probes.push("hot_query_pair_after_edit");
        }
        let chardata = step.is_chardata();
        let mut fails: Vec<Fail> = vec![];
        fails.extend(hot_fail);
        let mut stop_model = false;

        match &outcome {
            Outcome::Panic(p) => {
                rep.outcome = "panic".into();
                if mutator {
                    fails.push(Fail::new("C13", "panic", format!("{} panicked: {}", step.op_name(), p)));
                    if chardata {
                        fails.push(Fail::new("C16", "panic", format!("{} panicked: {}", step.op_name(), p)));
                    }
                } else if matches!(step.op, Op::Substring { .. }) {
                    fails.push(Fail::new("C16", "panic", format!("{} panicked: {}", step.op_name(), p)));
                } else if matches!(step.op, Op::Query { .. }) {
                    rep.unclaimed_panic = Some(p.clone());
                } else {
                    fails.push(Fail::new("C12", "accessor-panic", format!("{} panicked: {}", step.op_name(), p)));
                }
                stop_model = true;
            }
            Outcome::Err(c, msg) => {
                rep.outcome = format!("err:{:?}", c);
                rep.failed_call = true;
                let must_succeed = plan.ok && plan.errs.is_empty() && !plan.any_err;
                if must_succeed {
                    let f = format!("{} must succeed per DOM Level 1 but failed with {}", step.op_name(), msg);
                    if chardata || matches!(step.op, Op::Substring { .. }) {
                        fails.push(Fail::new("C16", "unexpected-failure", f.clone()));
                    }
                    if mutator {
                        fails.push(Fail::new("C13", "unexpected-failure", f));
                    }
                } else if !plan.admits_err(*c) {
                    let f = format!("{} failed with {} but the admissible classes are {:?}", step.op_name(), msg, plan.errs);
                    if chardata || matches!(step.op, Op::Substring { .. }) {
                        fails.push(Fail::new("C16", "wrong-exception", f.clone()));
                    }
                    if mutator {
                        fails.push(Fail::new("C13", "wrong-exception", f));
                    }
                }
                self.clear_out(step);
            }
            Outcome::Ok(ret) => {
                rep.outcome = "ok".into();
                if !plan.ok {
                    let f = format!("{} succeeded but DOM Level 1 requires one of {:?}", step.op_name(), plan.errs);
                    if chardata || matches!(step.op, Op::Substring { .. }) {
                        fails.push(Fail::new("C16", "should-have-failed", f.clone()));
                    }
                    fails.push(Fail::new("C13", "should-have-failed", f));
                    stop_model = true;
                } else {
                    self.commit(step, ret, &plan, &mut fails, &mut rep);
                }
            }
            Outcome::Skipped => unreachable!(),
        }

        // observe
        let (post_raw, tfails) = self.real.observe(self.cfg.limit);
        // (a value piece of a defaulted attribute with the wrong parent does not make the graph unsafe to walk)
        let tree_broken = tfails.iter().any(|f| !GATED_CLAUSES.contains(&f.clause));
        fails.extend(tfails);
        fails.extend(oracle::check_tree(&post_raw));
        let tree_broken = tree_broken || fails.iter().any(|f| f.prop == "C12" && !GATED_CLAUSES.contains(&f.clause));
        let post = oracle::normalise(&post_raw);

        // serialisations (only on graphs proved to be trees)
        let mut post_ser: Vec<Option<String>> = vec![];
        if !tree_broken {
            for i in 0..self.real.docs.len() {
                match self.real.serialize(i) {
                    Ok(s) => post_ser.push(Some(s)),
                    Err(p) => {
                        post_ser.push(None);
                        fails.push(Fail::new("C15", "serialise-panic", format!("to_string() of document {} panicked: {}", i, p)));
                    }
                }
            }
        }

        if !stop_model {
            match &outcome {
                Outcome::Err(..) if mutator => {
                    if let Some(d) = oracle::first_diff(&pre, &post) {
                        if chardata {
                            fails.push(Fail::new("C16", "failed-call-changed-data", format!("{} failed but changed the data: {}", step.op_name(), d)));
                        }
                        fails.push(Fail::new("C13", "failed-call-changed-state", format!("{} failed but changed the document: {}", step.op_name(), d)));
                    } else if !tree_broken && pre_ser != post_ser {
                        fails.push(Fail::new("C13", "failed-call-changed-state", format!("{} failed but the serialisation changed", step.op_name())));
                    }
                }
                Outcome::Ok(_) if mutator => {
                    // adopt where the admissible outcome set is wider than one state
                    for m in plan.adopt.clone() {
                        self.model.adopt(m, &post_raw);
                    }
                    if let Op::Normalize { el } = &step.op {
                        if let Some(m) = self.model.node_slot(*el) {
                            if self.model.apply_normalize(m, &post_raw) > 0 {
                                rep.probes.push("normalize_merged_adjacent_text");
                            }
                            for (a, before, after) in self.model.adopt_attr_pieces_under(m, &post_raw) {
                                rep.probes.push("normalize_touched_attribute_value_pieces");
                                if before != after {
                                    fails.push(Fail::new(
                                        "C13",
                                        "effect",
                                        format!("normalize changed the value of attribute {:?} from {:?} to {:?}", self.model.key(a), before, after),
                                    ));
                                }
                            }
                        }
                    }
                    self.model.gc();
                    if plan.no_effect {
                        if let Some(d) = oracle::first_diff(&pre, &post) {
                            fails.push(Fail::new("C13", "effect", format!("{} must have no effect here but: {}", step.op_name(), d)));
                        }
                    }
                    if let Some(d) = self.only_named_attribute_replaced(step, &pre_raw, &post_raw) {
                        fails.push(Fail::new("C13", "effect", format!("after {}: {}", step.op_name(), d)));
                    }
                    // an attribute call that does not name a namespace declaration leaves the declarations alone
                    let plain_attr_call = match &step.op {
                        Op::SetAttribute { name, .. } | Op::RemoveAttribute { name, .. } | Op::MapRemoveNamedItem { name, .. } => !name.starts_with("xmlns"),
                        Op::SetAttributeNode { .. } | Op::MapSetNamedItem { .. } => !rep.probes.contains(&"namespace_declaration_attached_as_attribute_node"),
                        _ => false,
                    };
                    if plain_attr_call && !tree_broken {
                        for i in 0..pre_ser.len().min(post_ser.len()) {
                            if let (Some(a), Some(b)) = (&pre_ser[i], &post_ser[i]) {
                                if b.matches(" xmlns").count() < a.matches(" xmlns").count() {
                                    fails.push(Fail::new(
                                        "C13",
                                        "effect",
                                        format!("after {}: a namespace declaration disappeared from document {} ({:?} -> {:?})", step.op_name(), i, a, b),
                                    ));
                                    break;
                                }
                            }
                        }
                    }
                    if let Some(d) = oracle::compare(&post_raw, &self.model.expect_all()) {
                        fails.push(Fail::new("C13", "effect", format!("after {}: {}", step.op_name(), d)));
                        if chardata {
                            fails.push(Fail::new("C16", "effect", format!("after {}: {}", step.op_name(), d)));
                        }
                    }
                    rep.success_mutation = true;
                    self.successes += 1;
                    self.model.gen += 1;
                }
                _ => {
                    // accessors, queries, slot management: nothing may change
                    self.model.gc();
                    let drops = matches!(step.op, Op::Drop { .. } | Op::DropAllBut { .. });
                    if !drops {
                        // restrict to nodes present before: new handles may reveal nodes, never change them
                        if let Some(d) = diff_common(&pre, &post) {
                            fails.push(Fail::new("C19", "read-changed-state", format!("{} changed the document: {}", step.op_name(), d)));
                        } else if !tree_broken && pre_ser != post_ser && matches!(step.op, Op::Query { .. } | Op::Touch { .. } | Op::Nav { .. }) {
                            fails.push(Fail::new("C19", "read-changed-state", format!("{} changed the serialisation", step.op_name())));
                        }
                    }
                    if let Some(d) = oracle::compare(&post_raw, &self.model.expect_all()) {
                        let prop = if drops { "C12" } else { "C19" };
                        fails.push(Fail::new(prop, "state-after-read", format!("after {}: {}", step.op_name(), d)));
                    }
                }
            }
        }

        // C14 clause 6
        if !tree_broken {
            fails.extend(oracle::check_order(&post_raw));
        }

        // C15 clause 8 (+ clause 9)
        let do_c15 = !tree_broken
            && !stop_model
            && ((rep.success_mutation && self.cfg.c15_each) || matches!(step.op, Op::Checkpoint { .. }));
        if do_c15 {
            for i in 0..self.real.docs.len() {
                if let Some(Some(s)) = post_ser.get(i) {
                    let changed = pre_ser.get(i).map(|p| p.as_ref() != Some(s)).unwrap_or(true);
                    let explicit = matches!(&step.op, Op::Checkpoint { doc } if *doc == i);
                    if changed || explicit {
                        self.persist_recover(i, s, explicit || self.cfg.c14_diff_each, &mut fails, &mut rep);
                    }
                }
            }
        }

        if post_raw.values().any(|n| n.attrs.iter().any(|a| a.key.id == 0)) {
            rep.probes.push("dtd_default_attribute_visible");
        }
        self.last = post_raw;
        if !tree_broken {
            self.last_ser = post_ser;
        }
        rep.digest = self.digest();
        self.drop_gated(&mut fails, &mut rep);
        rep.fails = fails;
        rep
    }

    /// clauses of listed state-based findings are not judged in exploration runs (counted instead)
    fn drop_gated(&self, fails: &mut Vec<Fail>, rep: &mut StepReport) {
        if self.cfg.gates.is_empty() {
            return;
        }
        let before = fails.len();
        fails.retain(|f| !self.cfg.gates.iter().any(|g| g == f.clause));
        if fails.len() < before {
            rep.probes.push("clause_of_listed_finding_not_judged");
        }
    }

    fn clear_out(&mut self, step: &Step) {
        let out = match &step.op {
            Op::InsertBefore { out, .. }
            | Op::AppendChild { out, .. }
            | Op::ReplaceChild { out, .. }
            | Op::RemoveChild { out, .. }
            | Op::SetAttributeNode { out, .. }
            | Op::RemoveAttributeNode { out, .. }
            | Op::MapSetNamedItem { out, .. }
            | Op::MapRemoveNamedItem { out, .. }
            | Op::CreateElement { out, .. }
            | Op::CreateText { out, .. }
            | Op::CreateComment { out, .. }
            | Op::CreateCData { out, .. }
            | Op::CreatePI { out, .. }
            | Op::CreateAttr { out, .. }
            | Op::CreateEntRef { out, .. }
            | Op::SplitText { out, .. } => *out,
            _ => return,
        };
        self.model.clear_slot(out);
        self.real.clear(out);
    }

    /// DOM Level 1: setting an attribute replaces at most the attribute *of that name*; every other
    /// attribute of the element stays.  Judged on what the implementation reports before and after
    /// (names as written, `prefix:local`), independent of how the model identifies attributes.
    fn only_named_attribute_replaced(&self, step: &Step, pre: &ObsMap, post: &ObsMap) -> Option<String> {
        let (el_mid, given): (Mid, Option<String>) = match &step.op {
            Op::SetAttribute { el, name, .. } => (self.model.node_slot(*el)?, Some(name.clone())),
            Op::SetAttributeNode { el, .. } => (self.model.node_slot(*el)?, None),
            Op::MapSetNamedItem { map, .. } => match self.model.slot(*map) {
                Some(MSlot::Map(e)) => (*e, None),
                _ => return None,
            },
            _ => return None,
        };
        let key = self.model.key(el_mid)?;
        let before = pre.get(&key)?;
        let after = post.get(&key)?;
        let new_q = match given {
            Some(n) => n,
            None => after.attrs.iter().find(|a| a.key.id != 0 && !before.attrs.iter().any(|b| b.key == a.key)).map(|a| a.qname.clone())?,
        };
        // DOM Level 1: "if an attribute with that name is already present in the element, its value is changed":
        // the Attr node stays the same node
        if let Op::SetAttribute { name, .. } = &step.op {
            if let Some(b) = before.attrs.iter().find(|b| b.key.id != 0 && &b.qname == name) {
                if !after.attrs.iter().any(|a| a.key == b.key) {
                    return Some(format!(
                        "set_attribute({:?}) on {} replaced the Attr node {} by a new one instead of changing its value (a handle to it is now detached and keeps the old value)",
                        name, key, b.key
                    ));
                }
            }
        }
        for b in &before.attrs {
            if b.key.id == 0 || after.attrs.iter().any(|a| a.key == b.key) {
                continue;
            }
            if b.qname != new_q && !b.qname.is_empty() {
                return Some(format!("setting attribute {:?} removed attribute {:?} of {} (DOM Level 1 replaces only an attribute of the same name)", new_q, b.qname, key));
            }
        }
        None
    }

    /// a namespace declaration that was attached to an element: the library does not list it among the
    /// attributes; the model stops tracking the node and every handle to it is dropped
    fn forget_nsdecl(&mut self, a: Mid, out: S) {
        // the declaration and the pieces of its value
        let mut gone = vec![a];
        let mut i = 0;
        while i < gone.len() {
            let kids = self.model.nodes[gone[i]].children.clone();
            gone.extend(kids);
            i += 1;
        }
        for i in 0..self.model.slots.len() {
            let hit = match &self.model.slots[i] {
                Some(MSlot::Node(m)) => gone.contains(m),
                Some(MSlot::Vec(v, _)) => v.iter().any(|m| gone.contains(m)),
                Some(MSlot::List(m)) | Some(MSlot::Map(m)) | Some(MSlot::TagList(m, _)) => gone.contains(m),
                Some(MSlot::Run(v)) => v.iter().any(|m| gone.contains(m)),
                _ => false,
            };
            if hit {
                self.model.slots[i] = None;
                self.real.clear(i);
            }
        }
        for g in &gone {
            self.model.nodes[*g].dead = true;
        }
        self.model.by_key.retain(|_, m| !gone.contains(m));
        self.model.clear_slot(out);
        self.real.clear(out);
        self.model.gen += 1;
    }

    fn new_node(&mut self, kind: Kind, name: &str, data: &str, doc: usize, key: Option<Key>, out: S, fails: &mut Vec<Fail>) -> Option<Mid> {
        let key = match key {
            Some(k) => k,
            None => {
                fails.push(Fail::new("C13", "return-value", "factory returned no node".into()));
                return None;
            }
        };
        if let Some(existing) = self.model.mid_of(key) {
            fails.push(Fail::new(
                "C13",
                "return-value",
                format!("factory returned node {} whose id is already used by a live node ({:?})", key, self.model.nodes[existing].kind),
            ));
            return None;
        }
        let m = self.model.add(kind, name, data, doc);
        self.model.bind(m, key.id);
        self.model.set_slot(out, MSlot::Node(m));
        Some(m)
    }

    /// Apply the DOM Level 1 effect of a successful call to the model and judge return values.
    fn commit(&mut self, step: &Step, ret: &Ret, plan: &Plan, fails: &mut Vec<Fail>, rep: &mut StepReport) {
        let rkey = match ret {
            Ret::Node(k) => *k,
            _ => None,
        };
        match &step.op {
            Op::InsertBefore { recv, new, refc, out } => {
                let r = self.model.node_slot(*recv).unwrap();
                let n = self.model.node_slot(*new).unwrap();
                let rc = refc.map(|s| self.model.arg_head(s).unwrap());
                if self.model.nodes[n].kind == Kind::Fragment {
                    self.model.set_slot(*out, MSlot::Node(n));
                    return;
                }
                if plan.adopt.is_empty() {
                    if self.model.nodes[n].parent.is_some() && self.model.has_descendants(n) {
                        rep.probes.push("moved_attached_node_with_descendants");
                    }
                    if self.model.nodes[n].parent.is_none() && self.model.has_descendants(n) && self.model.is_attached(r) {
                        rep.probes.push("attached_detached_subtree");
                    }
                    self.model.apply_insert(r, n, rc);
                }
                self.bind_out(*out, rkey, Some(n), "insert_before", "C13", fails);
            }
            Op::AppendChild { recv, new, out } => {
                let r = self.model.node_slot(*recv).unwrap();
                let n = self.model.node_slot(*new).unwrap();
                if self.model.nodes[n].kind == Kind::Fragment {
                    self.model.set_slot(*out, MSlot::Node(n));
                    return;
                }
                if plan.adopt.is_empty() {
                    if self.model.nodes[n].parent.is_some() && self.model.has_descendants(n) {
                        rep.probes.push("moved_attached_node_with_descendants");
                    }
                    if self.model.nodes[n].parent.is_none() && self.model.has_descendants(n) && self.model.is_attached(r) {
                        rep.probes.push("attached_detached_subtree");
                    }
                    self.model.apply_insert(r, n, None);
                }
                self.bind_out(*out, rkey, Some(n), "append_child", "C13", fails);
            }
            Op::ReplaceChild { recv, new, old, out } => {
                let r = self.model.node_slot(*recv).unwrap();
                let n = self.model.node_slot(*new).unwrap();
                if let Some(MSlot::Run(run)) = self.model.slot(*old).cloned() {
                    // the merged text node stands for all of its pieces
                    self.model.apply_insert(r, n, Some(run[0]));
                    for p in &run {
                        self.model.apply_remove(r, *p);
                    }
                    if rkey != self.model.key(run[0]) {
                        fails.push(Fail::new("C13", "return-value", format!("replace_child returned {:?}, DOM Level 1 says the old child {:?}", rkey, self.model.key(run[0]))));
                    }
                    // the merged handles (argument and result) now stand for detached pieces: drop them
                    self.model.clear_slot(*out);
                    self.real.clear(*out);
                    self.model.clear_slot(*old);
                    self.real.clear(*old);
                    rep.probes.push("merged_text_replaced");
                    return;
                }
                let o = self.model.node_slot(*old).unwrap();
                if plan.adopt.is_empty() {
                    self.model.apply_replace(r, n, o);
                }
                self.bind_out(*out, rkey, Some(o), "replace_child", "C13", fails);
            }
            Op::RemoveChild { recv, old, out } => {
                let r = self.model.node_slot(*recv).unwrap();
                if let Some(MSlot::Run(run)) = self.model.slot(*old).cloned() {
                    for p in &run {
                        self.model.apply_remove(r, *p);
                    }
                    if rkey != self.model.key(run[0]) {
                        fails.push(Fail::new("C13", "return-value", format!("remove_child returned {:?}, DOM Level 1 says the old child {:?}", rkey, self.model.key(run[0]))));
                    }
                    // the merged handles (argument and result) now stand for detached pieces: drop them
                    self.model.clear_slot(*out);
                    self.real.clear(*out);
                    self.model.clear_slot(*old);
                    self.real.clear(*old);
                    if run.len() > 1 {
                        rep.probes.push("merged_text_of_several_pieces_removed");
                    }
                    return;
                }
                let o = self.model.node_slot(*old).unwrap();
                self.model.apply_remove(r, o);
                self.bind_out(*out, rkey, Some(o), "remove_child", "C13", fails);
            }
            Op::SetAttribute { el, name, value } => {
                let e = self.model.node_slot(*el).unwrap();
                if !self.model.nodes[e].children.is_empty() {
                    rep.probes.push("attribute_added_after_children");
                }
                // identity of the attribute node is adopted (plan.adopt = [el]); the value is judged below
                // DOM Level 1: the value is a plain string, "not parsed as it is being set"; a refusal of
                // markup-significant characters is admitted (C15), a *successful* call must store the string
                let judged = true;
                let _ = plan.any_err;
                if judged {
                    let local = local_of(name).to_string();
                    let e_key = self.model.key(e);
                    let want = norm_attr_ws(value);
                    // read back through the element handle
                    if let Some((XmlNode::Element(re), _)) = self.real.node(*el) {
                        use xml_dom::Element;
                        let got = guarded(|| re.get_attribute(&local));
                        match got {
                            Ok(g) if g == want => {}
                            Ok(g) => fails.push(Fail::new(
                                "C13",
                                "effect",
                                format!("set_attribute({:?},{:?}) on {:?}: get_attribute reports {:?}", name, value, e_key, g),
                            )),
                            Err(p) => fails.push(Fail::new("C13", "panic", format!("get_attribute panicked: {}", p))),
                        }
                    }
                }
            }
            Op::RemoveAttribute { el, name } => {
                let e = self.model.node_slot(*el).unwrap();
                self.model.apply_remove_attr(e, name);
            }
            Op::SetAttributeNode { el, attr, out } => {
                let e = self.model.node_slot(*el).unwrap();
                let a = self.model.node_slot(*attr).unwrap();
                if self.model.nodes[a].nsdecl {
                    self.forget_nsdecl(a, *out);
                    rep.probes.push("namespace_declaration_attached_as_attribute_node");
                    return;
                }
                if plan.no_effect {
                    // already this element's attribute: either "no change, returns none/itself"
                    self.model.clear_slot(*out);
                    if let Some(k) = rkey {
                        if let Some(m) = self.model.mid_of(k) {
                            self.model.set_slot(*out, MSlot::Node(m));
                        } else {
                            self.real.clear(*out);
                        }
                    }
                    return;
                }
                if !self.model.nodes[e].children.is_empty() {
                    rep.probes.push("attribute_added_after_children");
                }
                let prev = self.model.apply_set_attr_node(e, a);
                self.bind_out(*out, rkey, prev, "set_attribute_node", "C13", fails);
            }
            Op::MapSetNamedItem { map, attr, out } => {
                let e = match self.model.slot(*map) {
                    Some(MSlot::Map(e)) => *e,
                    _ => return,
                };
                let a = self.model.node_slot(*attr).unwrap();
                if self.model.nodes[a].nsdecl {
                    self.forget_nsdecl(a, *out);
                    rep.probes.push("namespace_declaration_attached_as_attribute_node");
                    return;
                }
                if plan.no_effect {
                    self.model.clear_slot(*out);
                    if let Some(k) = rkey {
                        if let Some(m) = self.model.mid_of(k) {
                            self.model.set_slot(*out, MSlot::Node(m));
                        } else {
                            self.real.clear(*out);
                        }
                    }
                    return;
                }
                let prev = self.model.apply_set_attr_node(e, a);
                self.bind_out(*out, rkey, prev, "set_named_item", "C13", fails);
            }
            Op::RemoveAttributeNode { el, attr, out } => {
                let e = self.model.node_slot(*el).unwrap();
                let a = self.model.node_slot(*attr).unwrap();
                let local = local_of(&self.model.nodes[a].name).to_string();
                // DOM L1: removes *that* node
                if self.model.nodes[a].owner_el == Some(e) {
                    let _ = local;
                    self.model.nodes[e].attrs.retain(|x| *x != a);
                    self.model.nodes[a].owner_el = None;
                }
                self.bind_out(*out, rkey, Some(a), "remove_attribute_node", "C13", fails);
            }
            Op::MapRemoveNamedItem { map, name, out } => {
                let e = match self.model.slot(*map) {
                    Some(MSlot::Map(e)) => *e,
                    _ => return,
                };
                if self.model.find_attr(e, name).is_none() && plan.no_effect {
                    // defaulted attribute: nothing changes, the returned node is a synthesized one
                    self.model.clear_slot(*out);
                    self.real.clear(*out);
                    return;
                }
                let prev = self.model.apply_remove_attr(e, name);
                self.bind_out(*out, rkey, prev, "remove_named_item", "C13", fails);
            }
            Op::SetValue { node, value } => {
                let m = self.model.node_slot(*node).unwrap();
                match self.model.nodes[m].kind {
                    Kind::Attr => {
                        // children adopted (plan.adopt=[attr]); judge the value
                        let judged = !value.contains('&') && !plan.any_err;
                        if judged {
                            if let Some((XmlNode::Attribute(ra), _)) = self.real.node(*node) {
                                let want = norm_attr_ws(value);
                                match guarded(|| ra.value()) {
                                    Ok(Ok(g)) if g == want => {}
                                    Ok(g) => fails.push(Fail::new("C13", "effect", format!("set_value({:?}): value() reports {:?}", value, g))),
                                    Err(p) => fails.push(Fail::new("C13", "panic", format!("value() panicked: {}", p))),
                                }
                            }
                        }
                    }
                    Kind::Text | Kind::CData | Kind::Comment => {
                        self.model.nodes[m].data = value.clone();
                    }
                    Kind::PI => {
                        if plan.any_err {
                            // leading white space etc.: adopt what the DOM reports
                            if let Some((XmlNode::PI(p), _)) = self.real.node(*node) {
                                self.model.nodes[m].data = p.data();
                            }
                        } else {
                            self.model.nodes[m].data = value.clone();
                        }
                    }
                    _ => {}
                }
            }
            Op::CreateElement { doc, name, out } => {
                let _ = plan;
                if let Some(m) = self.new_node(Kind::Element, local_of(name), "", *doc, rkey, *out, fails) {
                    if let Some((p, _)) = name.split_once(':') {
                        if !p.is_empty() {
                            self.model.nodes[m].prefix = Some(p.to_string());
                        }
                    }
                }
                if plan.any_err {
                    // odd name accepted: adopt whatever was built
                    if let (Some(m), Some(k)) = (self.model.node_slot(*out), rkey) {
                        let _ = (m, k);
                    }
                }
            }
            Op::CreateText { doc, data, out } => {
                self.new_node(Kind::Text, "#text", data, *doc, rkey, *out, fails);
            }
            Op::CreateComment { doc, data, out } => {
                self.new_node(Kind::Comment, "#comment", data, *doc, rkey, *out, fails);
            }
            Op::CreateCData { doc, data, out } => {
                self.new_node(Kind::CData, "#cdata-section", data, *doc, rkey, *out, fails);
            }
            Op::CreatePI { doc, target, data, out } => {
                let m = self.new_node(Kind::PI, target, data, *doc, rkey, *out, fails);
                if let (Some(m), true) = (m, plan.any_err) {
                    if let Some((XmlNode::PI(p), _)) = self.real.node(*out) {
                        self.model.nodes[m].data = p.data();
                        self.model.nodes[m].name = p.target();
                    }
                }
            }
            Op::CreateAttr { doc, name, out } => {
                let m = self.new_node(Kind::Attr, local_of(name), "", *doc, rkey, *out, fails);
                if let Some(m) = m {
                    if name == "xmlns" || name.starts_with("xmlns:") {
                        self.model.nodes[m].nsdecl = true;
                    }
                    if let Some((p, _)) = name.split_once(':') {
                        self.model.nodes[m].prefix = Some(p.to_string());
                    }
                }
            }
            Op::CreateEntRef { doc, name, out } => {
                let v = self.model.entity_value(*doc, name);
                let m = self.new_node(Kind::EntRef, name, "", *doc, rkey, *out, fails);
                if let Some(m) = m {
                    if v.is_none() {
                        self.model.nodes[m].undeclared = true;
                    }
                    if let Some((XmlNode::EntityReference(r), _)) = self.real.node(*out) {
                        self.model.nodes[m].data = r.value().unwrap_or_else(|e| format!("<ERR {}>", e));
                    }
                }
            }
            Op::CreateFragment { doc, out } => {
                let m = self.model.add(Kind::Fragment, "#document-fragment", "", *doc);
                self.model.set_slot(*out, MSlot::Node(m));
            }
            Op::SetData { node, .. }
            | Op::AppendData { node, .. }
            | Op::InsertData { node, .. }
            | Op::DeleteData { node, .. }
            | Op::ReplaceData { node, .. } => {
                let m = self.model.node_slot(*node).unwrap();
                if let Some(d) = self.model.data_after(m, &step.op) {
                    let kind = self.model.nodes[m].kind;
                    if !storable(kind, &d) && storable(kind, &self.model.nodes[m].data) {
                        rep.probes.push("data_edit_created_markup_sequence");
                    }
                    self.model.nodes[m].data = d.clone();
                    // clause 7: data() and length() through the handle
                    if let Some((rn, _)) = self.real.node(*node) {
                        let got = guarded(|| match &rn {
                            XmlNode::Text(t) => (t.data(), t.length()),
                            XmlNode::Comment(t) => (t.data(), t.length()),
                            XmlNode::CData(t) => (t.data(), t.length()),
                            _ => (Ok(String::new()), 0),
                        });
                        match got {
                            Ok((Ok(g), l)) => {
                                if g != d {
                                    fails.push(Fail::new("C16", "data", format!("{}: data() is {:?}, DOM Level 1 says {:?}", step.op_name(), g, d)));
                                } else if l != chars_len(&d) {
                                    fails.push(Fail::new("C16", "length", format!("{}: length() is {}, data has {} characters", step.op_name(), l, chars_len(&d))));
                                }
                            }
                            Ok((Err(e), _)) => fails.push(Fail::new("C16", "data", format!("data() failed: {}", e))),
                            Err(p) => fails.push(Fail::new("C16", "panic", format!("data()/length() panicked: {}", p))),
                        }
                    }
                }
            }
            Op::Substring { node, off, cnt } => {
                let d = match self.model.slot(*node) {
                    Some(MSlot::Run(r)) => self.model.run_data(r),
                    _ => self.model.nodes[self.model.node_slot(*node).unwrap()].data.clone(),
                };
                let d = &d;
                let len = chars_len(d);
                let want = char_slice(d, *off, off.saturating_add(*cnt).min(len));
                if let Ret::Str(g) = ret {
                    if *g != want {
                        fails.push(Fail::new("C16", "substring", format!("substring_data({},{}) of {:?} is {:?}, DOM Level 1 says {:?}", off, cnt, d, g, want)));
                    }
                }
                // length() of the same handle counts the characters of data(), merged text nodes included
                if let Some((rn, _)) = self.real.node(*node) {
                    let got = guarded(|| match &rn {
                        XmlNode::Text(t) => Some(t.length()),
                        XmlNode::Comment(t) => Some(t.length()),
                        XmlNode::CData(t) => Some(t.length()),
                        XmlNode::ExpandedText(t) => Some(t.length()),
                        _ => None,
                    });
                    match got {
                        Ok(Some(l)) if l != len => {
                            fails.push(Fail::new("C16", "length", format!("length() is {} but data {:?} has {} characters", l, d, len)));
                        }
                        Err(p) => fails.push(Fail::new("C16", "panic", format!("length() panicked: {}", p))),
                        _ => {}
                    }
                }
            }
            Op::SplitText { node, off, out } => {
                let m = self.model.node_slot(*node).unwrap();
                let kind = self.model.nodes[m].kind;
                let doc = self.model.nodes[m].doc;
                let d = self.model.nodes[m].data.clone();
                let len = chars_len(&d);
                let head = char_slice(&d, 0, *off);
                let tail = char_slice(&d, *off, len);
                let name = self.model.nodes[m].name.clone();
                let t2 = self.new_node(kind, &name, &tail, doc, rkey, *out, fails);
                if let Some(t2) = t2 {
                    self.model.nodes[m].data = head.clone();
                    if let Some(p) = self.model.nodes[m].parent {
                        let idx = self.model.nodes[p].children.iter().position(|c| *c == m).unwrap();
                        self.model.nodes[p].children.insert(idx + 1, t2);
                        self.model.nodes[t2].parent = Some(p);
                    }
                    // clause 7: the two data concatenate to the original
                    if let (Some((a, _)), Some((b, _))) = (self.real.node(*node), self.real.node(*out)) {
                        let got = guarded(|| {
                            let da = match &a {
                                XmlNode::Text(t) => t.data(),
                                XmlNode::CData(t) => t.data(),
                                _ => Ok(String::new()),
                            };
                            let db = match &b {
                                XmlNode::Text(t) => t.data(),
                                XmlNode::CData(t) => t.data(),
                                _ => Ok(String::new()),
                            };
                            (da, db)
                        });
                        match got {
                            Ok((Ok(da), Ok(db))) => {
                                if da != head || db != tail {
                                    fails.push(Fail::new(
                                        "C16",
                                        "split",
                                        format!("split_text({}) of {:?} gives {:?} + {:?}, DOM Level 1 says {:?} + {:?}", off, d, da, db, head, tail),
                                    ));
                                }
                            }
                            Ok(_) => fails.push(Fail::new("C16", "split", "data() failed after split_text".into())),
                            Err(p) => fails.push(Fail::new("C16", "panic", format!("data() panicked after split_text: {}", p))),
                        }
                        // clause 7: "two adjacent siblings" — through the halves' own sibling links
                        if self.model.nodes[m].parent.is_some() {
                            let nav = guarded(|| (a.next_sibling().map(|x| x.id()), b.previous_sibling().map(|x| x.id()), a.id(), b.id()));
                            if let Ok((an, bp, ai, bi)) = nav {
                                if an != Some(bi) || bp != Some(ai) {
                                    let expanded = self.real.docs[doc].expanded;
                                    fails.push(Fail::new(
                                        "C16",
                                        if expanded { "expanded_raw_piece_navigation" } else { "split" },
                                        format!("after split_text the first half #{} reports next_sibling {:?} and the second half #{} previous_sibling {:?}: not adjacent siblings", ai, an, bi, bp),
                                    ));
                                }
                            }
                        }
                    }
                }
            }
            Op::Nav { node, which, out } => {
                let m = match self.nav_node(*node) {
                    Some(m) => m,
                    None => {
                        self.model.clear_slot(*out);
                        self.real.clear(*out);
                        return;
                    }
                };
                match self.predict_nav(m, *which) {
                    Some(exp) => {
                        let mut f = vec![];
                        self.bind_out(*out, rkey, exp, which.name(), "C12", &mut f);
                        for mut x in f {
                            x.clause = "navigation";
                            fails.push(x);
                        }
                    }
                    None => {
                        self.model.clear_slot(*out);
                        self.real.clear(*out);
                    }
                }
            }
            Op::ChildIter { node, out } => {
                let m = match self.model.node_slot(*node) {
                    Some(m) => m,
                    None => {
                        self.model.clear_slot(*out);
                        self.real.clear(*out);
                        return;
                    }
                };
                let exp = self.view_children(m);
                if let Ret::Nodes(keys) = ret {
                    let got: Vec<Option<Mid>> = keys.iter().map(|k| self.model.mid_of(*k)).collect();
                    let want: Vec<Option<Mid>> = exp.iter().map(|m| Some(*m)).collect();
                    if got != want {
                        fails.push(Fail::new("C12", "navigation", format!("child_nodes().iter() yields {:?}, model says {:?}", keys, exp.iter().map(|m| self.model.key(*m)).collect::<Vec<_>>())));
                        self.model.clear_slot(*out);
                        self.real.clear(*out);
                    } else {
                        let flags = self.vec_flags(*out);
                        self.model.set_slot(*out, MSlot::Vec(exp, flags));
                        self.model.born.insert(*out, self.model.gen);
                    }
                }
            }
            Op::ByTag { node, name, out } => {
                let m = match self.model.node_slot(*node) {
                    Some(m) => m,
                    None => {
                        self.model.clear_slot(*out);
                        self.real.clear(*out);
                        return;
                    }
                };
                let mut exp = vec![];
                self.collect_by_tag(m, name, true, &mut exp);
                if let Ret::Nodes(keys) = ret {
                    let got: Vec<Option<Mid>> = keys.iter().map(|k| self.model.mid_of(*k)).collect();
                    let want: Vec<Option<Mid>> = exp.iter().map(|m| Some(*m)).collect();
                    if got != want {
                        fails.push(Fail::new("C12", "navigation", format!("get_elements_by_tag_name({:?}) yields {:?}, model says {:?}", name, keys, exp.iter().map(|m| self.model.key(*m)).collect::<Vec<_>>())));
                        self.model.clear_slot(*out);
                        self.real.clear(*out);
                    } else {
                        let flags = self.vec_flags(*out);
                        self.model.set_slot(*out, MSlot::Vec(exp, flags));
                        self.model.born.insert(*out, self.model.gen);
                    }
                }
            }
            Op::TagList { node, name, out } => match self.model.node_slot(*node) {
                Some(m) => self.model.set_slot(*out, MSlot::TagList(m, name.clone())),
                None => {
                    self.model.clear_slot(*out);
                    self.real.clear(*out);
                }
            },
            Op::TagListRead { list, out } => {
                let (m, name) = match self.model.slot(*list) {
                    Some(MSlot::TagList(m, name)) => (*m, name.clone()),
                    _ => {
                        self.model.clear_slot(*out);
                        self.real.clear(*out);
                        return;
                    }
                };
                let mut exp = vec![];
                self.collect_by_tag(m, &name, true, &mut exp);
                if let Ret::Nodes(keys) = ret {
                    let got: Vec<Option<Mid>> = keys.iter().map(|k| self.model.mid_of(*k)).collect();
                    let want: Vec<Option<Mid>> = exp.iter().map(|m| Some(*m)).collect();
                    if got != want {
                        fails.push(Fail::new(
                            "C12",
                            "navigation",
                            format!("the held list get_elements_by_tag_name({:?}) of {:?} now yields {:?}, the tree holds {:?}", name, self.model.key(m), keys, exp.iter().map(|m| self.model.key(*m)).collect::<Vec<_>>()),
                        ));
                        self.model.clear_slot(*out);
                        self.real.clear(*out);
                    } else {
                        let flags = self.vec_flags(*out);
                        self.model.set_slot(*out, MSlot::Vec(exp, flags));
                        self.model.born.insert(*out, self.model.gen);
                        rep.probes.push("held_live_element_list_read");
                    }
                }
            }
            Op::ChildList { node, out } => {
                let m = match self.model.node_slot(*node) {
                    Some(m) => m,
                    None => {
                        self.model.clear_slot(*out);
                        self.real.clear(*out);
                        return;
                    }
                };
                self.model.set_slot(*out, MSlot::List(m));
            }
            Op::AttrMap { node, out } => {
                let m = match self.model.node_slot(*node) {
                    Some(m) => m,
                    None => {
                        self.model.clear_slot(*out);
                        self.real.clear(*out);
                        return;
                    }
                };
                if self.model.nodes[m].kind == Kind::Element {
                    self.model.set_slot(*out, MSlot::Map(m));
                } else {
                    self.model.clear_slot(*out);
                    self.real.clear(*out);
                }
            }
            Op::ListItem { list, idx, out } => {
                let m = match self.model.slot(*list) {
                    Some(MSlot::List(m)) => *m,
                    _ => return,
                };
                let exp = self.view_children(m).get(*idx).cloned();
                let mut f = vec![];
                self.bind_out(*out, rkey, exp, "child_nodes().item", "C12", &mut f);
                for mut x in f {
                    x.clause = "navigation";
                    fails.push(x);
                }
            }
            Op::VecItem { vec, idx, out } => {
                let (v, merged) = match self.model.slot(*vec) {
                    Some(MSlot::Vec(v, f)) => (v.clone(), f.get(*idx).cloned().unwrap_or(false)),
                    _ => return,
                };
                if merged && self.model.born.get(vec).cloned() != Some(self.model.gen) {
                    // a merged text handle out of an old snapshot: not judged
                    self.model.clear_slot(*out);
                    self.real.clear(*out);
                    return;
                }
                match (v.get(*idx), rkey) {
                    // (a merged text handle does not keep its subtree alive in the model: once the last real holder
                    // is dropped the nodes are gone from the model and the element of the snapshot is not judged)
                    (Some(m), Some(_)) if !self.model.nodes[*m].dead && !(merged && self.model.nodes[*m].parent.is_none()) => {
                        self.set_node_slot(*out, *m)
                    }
                    _ => {
                        self.model.clear_slot(*out);
                        self.real.clear(*out);
                    }
                }
            }
            Op::MapItem { map, out, .. } => {
                // attribute order is free: bind by identity
                let _ = map;
                match rkey.and_then(|k| self.model.mid_of(k)) {
                    Some(m) => self.model.set_slot(*out, MSlot::Node(m)),
                    None => {
                        self.model.clear_slot(*out);
                        self.real.clear(*out);
                    }
                }
            }
            Op::MapGet { map, name, out } => {
                let e = match self.model.slot(*map) {
                    Some(MSlot::Map(e)) => *e,
                    _ => return,
                };
                if self.default_lookup(e, name, rkey, *out, "get_named_item", fails) {
                    return;
                }
                let exp = self.model.find_attr(e, name);
                let mut f = vec![];
                self.bind_out(*out, rkey, exp, "get_named_item", "C12", &mut f);
                for mut x in f {
                    x.clause = "navigation";
                    fails.push(x);
                }
            }
            Op::GetAttrNode { el, name, out } => {
                let e = match self.model.node_slot(*el) {
                    Some(e) => e,
                    None => {
                        self.model.clear_slot(*out);
                        self.real.clear(*out);
                        return;
                    }
                };
                if self.default_lookup(e, name, rkey, *out, "get_attribute_node", fails) {
                    return;
                }
                let exp = self.model.find_attr(e, name);
                let mut f = vec![];
                self.bind_out(*out, rkey, exp, "get_attribute_node", "C12", &mut f);
                for mut x in f {
                    x.clause = "navigation";
                    fails.push(x);
                }
            }
            Op::Touch { .. } => {}
            Op::DocRoot { doc, out } => {
                let r = self.model.docs[*doc].root;
                self.model.set_slot(*out, MSlot::Node(r));
            }
            Op::Drop { slot } => {
                let held_root = match self.model.slot(*slot) {
                    Some(MSlot::Node(m)) => {
                        let n = &self.model.nodes[*m];
                        n.parent.is_none() && n.owner_el.is_none() && n.kind != Kind::Document && self.model.has_descendants(*m)
                    }
                    _ => false,
                };
                self.model.clear_slot(*slot);
                if held_root {
                    let before = self.model.alive().len();
                    self.model.gc();
                    if self.model.alive().len() < before {
                        rep.probes.push("dropped_last_handle_to_detached_subtree");
                    }
                }
            }
            Op::DropAllBut { keep } => {
                for i in 0..self.model.slots.len() {
                    if !keep.contains(&i) {
                        if let Some(MSlot::Ctx(_)) = self.model.slots[i] {
                            continue;
                        }
                        self.model.slots[i] = None;
                    }
                }
            }
            Op::NewCtx { out, ns } => {
                self.model.set_slot(*out, MSlot::Ctx(ns.clone()));
            }
            Op::CtxNs { ctx, prefix, uri } => {
                if let Some(MSlot::Ctx(ns)) = self.model.slot(*ctx).cloned() {
                    let mut ns: Vec<(String, String)> = ns.into_iter().filter(|(p, _)| p != prefix).collect();
                    if !uri.is_empty() {
                        ns.push((prefix.clone(), uri.clone()));
                    }
                    self.model.set_slot(*ctx, MSlot::Ctx(ns));
                    rep.probes.push("context_prefix_rebound");
                }
            }
            Op::Query { ctx, doc, expr, out } => {
                let ns = match self.model.slot(*ctx) {
                    Some(MSlot::Ctx(ns)) => ns.clone(),
                    _ => vec![],
                };
                let shared = match ret {
                    Ret::Q(q) => q.clone(),
                    _ => return,
                };
                if let QVal::Panic(p) = &shared {
                    rep.unclaimed_panic = Some(p.clone());
                    self.model.clear_slot(*out);
                    self.real.clear(*out);
                    return;
                }
                if let QVal::Err(_) = &shared {
                    rep.probes.push("query_failed");
                }
                // clause 10: the same query on a fresh context with the same bindings
                let dom = self.real.docs[*doc].dom.clone();
                let mut fresh = make_ctx(&ns);
                let (fv, _) = run_query(&dom, expr, &mut fresh, *doc);
                if let QVal::Panic(p) = &fv {
                    rep.unclaimed_panic = Some(p.clone());
                } else if fv != shared {
                    fails.push(Fail::new(
                        "C19",
                        "context-reuse",
                        format!("query {:?}: re-used context gives {:?}, fresh context gives {:?}", expr, shared, fv),
                    ));
                    // the caller's own query on the edited document is the left-hand side of C14 as well: a node-set
                    // that depends on what the context saw before the edits cannot equal the re-parsed copy's
                    if self.model.gen > 0 && matches!((&shared, &fv), (QVal::Nodes(_), QVal::Nodes(_))) {
                        fails.push(Fail::new(
                            "C14",
                            "held-context-after-edit",
                            format!("query {:?} after {} successful edits: the caller's context gives {:?}, a fresh context {:?}", expr, self.model.gen, shared, fv),
                        ));
                    }
                }
                // and once more on the shared context: a query may not change the answer of a later one
                // (done by the scheduler issuing further queries)
                match &shared {
                    QVal::Nodes(keys) => {
                        let mids: Vec<Mid> = keys.iter().filter_map(|k| self.model.mid_of(*k)).collect();
                        if mids.len() == keys.len() {
                            let flags = self.vec_flags(*out);
                            self.model.set_slot(*out, MSlot::Vec(mids, flags));
                            self.model.born.insert(*out, self.model.gen);
                        } else {
                            // result contains nodes the model does not track (namespace nodes, merged text)
                            self.model.clear_slot(*out);
                            self.real.clear(*out);
                        }
                    }
                    _ => {
                        self.model.clear_slot(*out);
                        self.real.clear(*out);
                    }
                }
            }
            Op::Checkpoint { .. } => {}
            Op::Restart { .. } => {}
            Op::DtMap { .. } => {}
            // the effect needs the observation (which node of a run survived): applied after observing
            Op::Normalize { .. } => {}
            Op::Probe { .. } => {}
            Op::Reparse { doc } => {
                // reading the maps of the document type twice gives the same answer (no edit in between)
                let live = self.real.docs[*doc].dom.clone();
                match (guarded(|| dtd_maps_sig(&live)), guarded(|| dtd_maps_sig(&live))) {
                    (Ok(a), Ok(b)) => {
                        if a != b {
                            fails.push(Fail::new("C19", "read-unstable", format!("enumerating the entities / notations of the document type twice gives {:?} and then {:?}", a, b)));
                        }
                    }
                    (Err(p), _) | (_, Err(p)) => fails.push(Fail::new("C19", "read-unstable", format!("enumerating the maps of the document type panicked: {}", p))),
                }
                let text = self.real.docs[*doc].text.clone();
                let expanded = self.real.docs[*doc].expanded;
                match parse_doc(&text, expanded) {
                    Ok(d2) => {
                        let eq = guarded(|| d2 == self.pristine[*doc]);
                        match eq {
                            Ok(true) => {}
                            Ok(false) => fails.push(Fail::new("C19", "reparse", "parsing the same text again gives a document that is not == the first".into())),
                            Err(p) => fails.push(Fail::new("C19", "reparse", format!("comparing two parses panicked: {}", p))),
                        }
                        match guarded(|| sig_of(&d2)) {
                            Ok(s) => {
                                if s != self.pristine_sig[*doc] {
                                    fails.push(Fail::new("C19", "reparse", "second parse of the same text differs in serialisation, ids or order keys".into()));
                                }
                            }
                            Err(p) => fails.push(Fail::new("C19", "reparse", format!("signature of second parse panicked: {}", p))),
                        }
                    }
                    Err(e) => fails.push(Fail::new("C19", "reparse", format!("second parse of the same text failed: {}", e))),
                }
            }
        }
    }

    fn collect_by_tag(&self, m: Mid, name: &str, top: bool, out: &mut Vec<Mid>) {
        let n = &self.model.nodes[m];
        if n.kind == Kind::Element && (name == "*" || local_of(&n.name) == name) {
            if !(top && n.kind == Kind::Document) {
                out.push(m);
            }
        }
        for c in &n.children {
            if self.model.nodes[*c].kind == Kind::Element {
                self.collect_by_tag(*c, name, false, out);
            }
        }
    }

    /// clause 8 (and 9): serialise, re-parse, compare what the DOM reports
    fn persist_recover(&mut self, doc: usize, ser: &str, with_queries: bool, fails: &mut Vec<Fail>, rep: &mut StepReport) {
        let expanded = self.real.docs[doc].expanded;
        let live = self.real.docs[doc].dom.clone();
        if !self.model.has_document_element(doc) {
            // DOM Level 1 allows removing the document element; what is left has no well-formed
            // serialisation.  A listed finding (clause no_document_element); judged only when it is not listed
            if self.cfg.gates.iter().any(|g| g == "no_document_element") {
                rep.probes.push("persist_skipped_no_document_element");
            } else if let Ok(Err(e)) = guarded(|| parse_doc(ser, expanded)) {
                fails.push(Fail::new(
                    "C15",
                    "no_document_element",
                    format!("calls that reported success left a document without a document element; the parser rejects its serialisation {:?}: {}", ser, e),
                ));
            }
            return;
        }
        let rec = match guarded(|| parse_doc(ser, expanded)) {
            Err(p) => {
                fails.push(Fail::new("C15", "reparse-panic", format!("re-parsing the serialisation panicked: {} (text {:?})", p, ser)));
                return;
            }
            Ok(Err(e)) => {
                fails.push(Fail::new("C15", "reparse-rejected", format!("the parser rejects the serialisation: {} (text {:?})", e, ser)));
                return;
            }
            Ok(Ok(d)) => d,
        };
        let a = canon_doc(&live);
        let b = canon_doc(&rec);
        match (a, b) {
            (Ok(a), Ok(b)) => {
                if a != b {
                    fails.push(Fail::new(
                        "C15",
                        "content-differs",
                        format!("DOM reports {} but its serialisation {:?} denotes {}", a, ser, b),
                    ));
                    return;
                }
            }
            (Err(p), _) | (_, Err(p)) => {
                fails.push(Fail::new("C15", "content-panic", format!("reading content panicked: {}", p)));
                return;
            }
        }
        if self.successes >= 3 {
            rep.probes.push("recovered_after_3_edits");
        }
        let normal = self.model.text_normal(doc);
        let gated = self.cfg.gates.iter().any(|g| g == "nontext_normal_queries");
        if with_queries && !normal && gated {
            rep.probes.push("differential_queries_skipped_adjacent_or_empty_text");
        }
        if with_queries && (normal || !gated) {
            let ns = self.cfg.diff_ns.clone();
            for q in self.cfg.diff_pool.clone() {
                let mut c1 = make_ctx(&ns);
                let mut c2 = make_ctx(&ns);
                let (v1, n1) = run_query(&live, &q, &mut c1, doc);
                let (v2, n2) = run_query(&rec, &q, &mut c2, doc);
                if matches!(v1, QVal::Panic(_)) || matches!(v2, QVal::Panic(_)) {
                    rep.unclaimed_panic = Some(format!("differential query {:?} panicked", q));
                    continue;
                }
                let l1 = guarded(|| locate(&v1, &live, doc, &n1));
                let l2 = guarded(|| locate(&v2, &rec, doc, &n2));
                match (l1, l2) {
                    (Ok(l1), Ok(l2)) => {
                        if l1 != l2 {
                            fails.push(Fail::new(
                                "C14",
                                if normal { "query-differs" } else { "nontext_normal_queries" },
                                format!("query {:?} on the edited document selects {} but on the re-parsed copy {} (serialisation {:?})", q, l1, l2, ser),
                            ));
                            return;
                        }
                    }
                    _ => {}
                }
            }
            rep.probes.push("differential_queries_run");
        }
    }
}

/// differences restricted to nodes present in both observations
fn diff_common(a: &ObsMap, b: &ObsMap) -> Option<String> {
    let mut a2 = ObsMap::new();
    let mut b2 = ObsMap::new();
    for (k, v) in a {
        if let Some(w) = b.get(k) {
            // ranks can shift when the set of visible nodes changes: compare structure only
            let mut v = v.clone();
            let mut w = w.clone();
            if a.len() != b.len() {
                v.order = 0;
                w.order = 0;
                for x in v.attrs.iter_mut() {
                    x.order = 0;
                }
                for x in w.attrs.iter_mut() {
                    x.order = 0;
                }
            }
            a2.insert(*k, v);
            b2.insert(*k, w);
        }
    }
    oracle::first_diff(&a2, &b2)
}

#[allow(dead_code)]
fn unused(_: &dyn AsStringValue, _: &dyn NodeList) {}

#[allow(dead_code)]
fn unused2(m: &dyn NamedNodeMap<xml_dom::XmlAttr>) -> usize {
    m.length()
}
