//! Seeded generation: documents, swarm configuration, caller tasks and their next steps.
//! Every choice is drawn from the one PRNG; nothing here reads a clock, an address or a hash order.

use crate::model::*;
use crate::rng::Rng;
use crate::step::*;
use crate::world::World;

pub const EL_NAMES: &[&str] = &["a", "b", "c", "p:d", "q:e", "f"];
pub const ATTR_NAMES: &[&str] = &["x", "y", "z", "p:w", "id", "xml:lang", "dflt", "fx", "q:w", "q:x", "p", "q"];
pub const BAD_NAMES: &[&str] = &["1a", "a b", "a<", "", " ", "a&b", "a x='1'", "x>y", "-a", "a/"];
pub const ODD_NAMES: &[&str] = &["a:b:c", "zz:a", ":a", "a:", "xmlnsx", "xmlnsfoo", "xmlx", "xmlns:"];
pub const PI_TARGETS: &[&str] = &["t", "u", "pi-x", "x", "xm", "X", "xmlx"];
pub const SAFE_CHARS: &[&str] = &["a", "b", "é", "𝒳", "\u{301}", " ", "1"];
pub const WS_CHARS: &[&str] = &["\t", "\n"];
pub const MARKUP_CHARS: &[&str] = &["<", ">", "&", "'", "\"", "-", "]", "?", "!", "[", ";", "#", "\r"];

#[derive(Clone, Debug)]
pub struct Profile {
    pub name: &'static str,
    /// weights: structure, attribute, chardata, create, navigate, query, slot-drop, procedure, reparse/checkpoint
    pub w_struct: usize,
    pub w_attr: usize,
    pub w_data: usize,
    pub w_create: usize,
    pub w_nav: usize,
    pub w_query: usize,
    pub w_drop: usize,
    pub w_proc: usize,
    pub w_check: usize,
    pub illegal_pct: usize,
    pub markup_pct: usize,
    pub stale_pct: usize,
    pub crash_pct: usize,
    pub max_steps: usize,
    pub n_tasks: usize,
    pub n_docs: usize,
    pub twin: bool,
    pub expanded: bool,
    pub doc_nodes: usize,
    pub failing_queries: bool,
}

impl Profile {
    /// swarm: every run draws its own mix around the property's base profile
    pub fn draw(prop: &str, rng: &mut Rng) -> Profile {
        let mut p = Profile {
            name: "base",
            w_struct: 30,
            w_attr: 12,
            w_data: 10,
            w_create: 12,
            w_nav: 18,
            w_query: 6,
            w_drop: 4,
            w_proc: 6,
            w_check: 2,
            illegal_pct: 15,
            markup_pct: 10,
            stale_pct: 25,
            crash_pct: 10,
            max_steps: 40,
            n_tasks: 2,
            n_docs: 1,
            twin: false,
            expanded: false,
            doc_nodes: 12,
            failing_queries: false,
        };
        match prop {
            "C12" => {
                p.name = "structure";
                p.w_struct = 45;
                p.w_proc = 10;
                p.illegal_pct = rng.range(5, 30);
            }
            "C13" => {
                p.name = "illegal-calls";
                p.w_struct = 35;
                p.w_attr = 18;
                p.illegal_pct = rng.range(25, 40);
            }
            "C14" => {
                p.name = "order";
                p.w_struct = 40;
                p.w_attr = 15;
                p.w_nav = 20;
                p.w_check = 6;
                p.w_data = 4;
                p.illegal_pct = rng.range(0, 15);
            }
            "C15" => {
                p.name = "data-edit";
                p.w_proc = 14;
                p.w_struct = 15;
                p.w_data = 35;
                p.w_create = 20;
                p.w_attr = 15;
                p.markup_pct = rng.range(30, 70);
                p.illegal_pct = rng.range(0, 10);
            }
            "C16" => {
                p.name = "chardata";
                p.w_struct = 12;
                p.w_data = 50;
                p.w_create = 10;
                p.w_attr = 3;
                p.markup_pct = 0;
                p.illegal_pct = rng.range(10, 30);
            }
            "C19" => {
                p.name = "query";
                p.w_query = 45;
                p.w_nav = 20;
                p.w_struct = if rng.pct(50) { 0 } else { 12 };
                p.w_attr = if p.w_struct == 0 { 0 } else { 5 };
                p.w_data = if p.w_struct == 0 { 0 } else { 4 };
                p.w_create = if p.w_struct == 0 { 0 } else { 4 };
                p.w_proc = 0;
                p.w_check = 6;
                p.failing_queries = true;
                p.illegal_pct = 5;
            }
            _ => {}
        }
        // swarm variation: knock out some categories entirely, vary sizes
        if rng.pct(20) {
            p.w_attr = 0;
        }
        if rng.pct(15) {
            p.w_data = 0;
        }
        if rng.pct(15) {
            p.w_drop = 0;
        }
        if rng.pct(20) {
            p.w_proc = 0;
        }
        if rng.pct(30) {
            p.w_query = p.w_query / 3;
        }
        p.stale_pct = *rng.pick(&[0, 10, 25, 50]);
        p.crash_pct = *rng.pick(&[0, 5, 15, 30]);
        p.max_steps = rng.range(5, 80);
        p.n_tasks = rng.range(1, 4);
        p.n_docs = if rng.pct(30) { 2 } else { 1 };
        p.twin = p.n_docs == 2 && rng.pct(40);
        p.doc_nodes = rng.range(3, 40);
        p.expanded = rng.pct(35);
        p
    }
}

// ---------------------------------------------------------------------------------------------
// documents

pub struct DocGen<'a> {
    pub rng: &'a mut Rng,
    pub budget: usize,
    pub entities: Vec<String>,
    pub markup_text: bool,
}

impl<'a> DocGen<'a> {
    fn text(&mut self) -> String {
        let n = self.rng.range(1, 6);
        let mut s = String::new();
        for _ in 0..n {
            if self.rng.pct(8) {
                s.push_str(self.rng.ps(WS_CHARS));
            } else if self.rng.pct(6) {
                s.push_str(self.rng.ps(&[">", "'", "\"", "-", "]", "?", "!", ";", "#"]));
            } else {
                s.push_str(self.rng.ps(SAFE_CHARS));
            }
        }
        s.replace("]]>", "]] >")
    }

    fn attr_value(&mut self) -> String {
        let n = self.rng.range(0, 4);
        let mut s = String::new();
        for _ in 0..n {
            match self.rng.below(12) {
                0 => s.push_str("&#65;"),
                1 => s.push_str("&lt;"),
                2 => {
                    if !self.entities.is_empty() {
                        let e = self.rng.pick(&self.entities).clone();
                        s.push_str(&format!("&{};", e));
                    }
                }
                3 => s.push_str("\t"),
                4 => s.push_str("'"),
                _ => s.push_str(self.rng.ps(SAFE_CHARS)),
            }
        }
        s
    }

    fn element(&mut self, depth: usize, out: &mut String, root: bool) {
        let name = if root { self.rng.ps(&["a", "b", "c", "f", "p:d"]) } else { self.rng.ps(EL_NAMES) };
        out.push('<');
        out.push_str(name);
        if root {
            out.push_str(" xmlns:p=\"urn:p\" xmlns:q=\"urn:q\"");
            if self.rng.pct(25) {
                out.push_str(" xmlns=\"urn:d\"");
            }
        } else if self.rng.pct(6) {
            out.push_str(if self.rng.pct(50) { " xmlns=\"\"" } else { " xmlns=\"urn:d2\"" });
        } else if self.rng.pct(7) {
            // a nested re-declaration: moving an element across this boundary changes what its prefix means
            out.push_str(if self.rng.pct(50) { " xmlns:p=\"urn:q\"" } else { " xmlns:q=\"urn:p\"" });
        }
        let na = if self.rng.pct(45) { self.rng.range(1, 3) } else { 0 };
        let mut used: Vec<&str> = vec![];
        for _ in 0..na {
            let an = self.rng.ps(ATTR_NAMES);
            // one attribute per local part: documents never start with two attributes that differ only in prefix
            if used.iter().any(|u| local_of(u) == local_of(an)) {
                continue;
            }
            used.push(an);
            if self.budget > 0 {
                self.budget -= 1;
            }
            let v = self.attr_value();
            let q = if v.contains('"') { '\'' } else { '"' };
            let v = if q == '\'' { v.replace('\'', "&apos;") } else { v };
            out.push_str(&format!(" {}={}{}{}", an, q, v, q));
        }
        let nkids = if depth >= 5 || self.budget == 0 { 0 } else { self.rng.below(5) };
        if nkids == 0 && self.rng.pct(70) {
            out.push_str("/>");
            return;
        }
        out.push('>');
        for _ in 0..nkids {
            if self.budget == 0 {
                break;
            }
            self.budget -= 1;
            match self.rng.below(20) {
                0..=7 => self.element(depth + 1, out, false),
                8..=12 => {
                    // two text pieces in a row are one text node for the parser: they must not form `]]>` together
                    let mut t = self.text();
                    let tail_brackets = out.chars().rev().take_while(|c| *c == ']').count();
                    let lead_brackets = t.chars().take_while(|c| *c == ']').count();
                    if tail_brackets + lead_brackets >= 2 && t[lead_brackets..].starts_with('>') && (tail_brackets > 0) {
                        t.insert(lead_brackets, ' ');
                    }
                    out.push_str(&t)
                }
                13 => out.push_str(&format!("<!--{}-->", self.comment_data())),
                14 => out.push_str(&self.pi()),
                15 | 16 => out.push_str(&format!("<![CDATA[{}]]>", self.cdata())),
                17 => out.push_str(self.rng.ps(&["&#233;", "&#x1D4B3;", "&#38;", "&#60;"])),
                18 => {
                    if !self.entities.is_empty() && self.rng.pct(60) {
                        let e = self.rng.pick(&self.entities).clone();
                        out.push_str(&format!("&{};", e));
                    } else {
                        out.push_str(self.rng.ps(&["&amp;", "&lt;", "&gt;", "&apos;", "&quot;"]));
                    }
                }
                _ => out.push_str(self.rng.ps(&[" ", "\n", "\n  "])),
            }
        }
        out.push_str(&format!("</{}>", name));
    }

    fn comment_data(&mut self) -> String {
        let mut s = self.text();
        while s.contains("--") {
            s = s.replace("--", "- -");
        }
        while s.ends_with('-') {
            s.pop();
        }
        s
    }

    fn cdata(&mut self) -> String {
        let mut s = self.text();
        if self.rng.pct(30) {
            s.push_str(self.rng.ps(&["<", "&", "<b>", "]]"]));
        }
        s.replace("]]>", "]] >")
    }

    fn pi(&mut self) -> String {
        let t = self.rng.ps(PI_TARGETS);
        if self.rng.pct(30) {
            format!("<?{}?>", t)
        } else {
            let d = self.text().replace("?>", "? >");
            let d = d.trim_start().to_string();
            if d.is_empty() {
                format!("<?{}?>", t)
            } else {
                format!("<?{} {}?>", t, d)
            }
        }
    }

    pub fn document(&mut self) -> String {
        let mut out = String::new();
        match self.rng.below(6) {
            0 => out.push_str("<?xml version=\"1.0\"?>"),
            1 => out.push_str("<?xml version=\"1.0\" encoding=\"UTF-8\"?>"),
            2 => out.push_str("<?xml version=\"1.0\" encoding=\"UTF-8\" standalone=\"yes\"?>"),
            _ => {}
        }
        if self.rng.pct(15) {
            let c = self.comment_data();
            out.push_str(&format!("<!--{}-->", c));
        }
        if self.rng.pct(10) {
            let p = self.pi();
            out.push_str(&p);
        }
        let mut body = String::new();
        let with_dtd = self.rng.pct(35);
        if with_dtd && self.rng.pct(70) {
            self.entities = vec!["e1".to_string(), "e2".to_string()];
        }
        self.element(0, &mut body, true);
        if with_dtd {
            let rootname: String = body[1..].chars().take_while(|c| !c.is_whitespace() && *c != '>' && *c != '/').collect();
            out.push_str(&format!("<!DOCTYPE {}", rootname));
            let attlist = if self.rng.pct(50) {
                match self.rng.below(4) {
                    0 => "<!ATTLIST b dflt CDATA \"dv\">",
                    1 => "<!ATTLIST a dflt CDATA \"d v\"><!ATTLIST c fx CDATA #FIXED \"k\">",
                    // several defaults on one element: their order among themselves is part of every `@*` answer
                    2 => "<!ATTLIST b dflt CDATA \"dv\" d2 CDATA \"v2\" d3 CDATA \"v3\"><!ATTLIST a dflt CDATA \"dv\" d2 CDATA \"v2\">",
                    _ => "<!ATTLIST f dflt CDATA \"dv\"><!ATTLIST b opt CDATA #IMPLIED>",
                }
            } else {
                ""
            };
            if !self.entities.is_empty() {
                let notation = if self.rng.pct(40) { "<!NOTATION n1 SYSTEM \"s1\"><!NOTATION n2 PUBLIC \"p2\">" } else { "" };
                // replacement text with characters of two, three and four bytes: lengths and offsets of a merged
                // text node that contains the reference count characters, not bytes
                let v1 = self.rng.ps(&["v1", "é𝒳", "a\u{301}é", "𝒳"]);
                out.push_str(&format!(" [<!ENTITY e1 \"{}\"><!ENTITY e2 \"w &#38; w\">{}{}]", v1, notation, attlist));
            } else if !attlist.is_empty() {
                out.push_str(&format!(" [{}]", attlist));
            }
            out.push('>');
            if self.rng.pct(20) {
                out.push('\n');
            }
        }
        out.push_str(&body);
        if self.rng.pct(15) {
            let c = self.comment_data();
            out.push_str(&format!("<!--{}-->", c));
        }
        if self.rng.pct(10) {
            let p = self.pi();
            out.push_str(&p);
        }
        out
    }
}

pub fn gen_docs(rng: &mut Rng, p: &Profile) -> Vec<(String, bool)> {
    let mut docs: Vec<(String, bool)> = vec![];
    for i in 0..p.n_docs {
        if i == 1 && p.twin {
            let t: (String, bool) = docs[0].clone();
            docs.push(t);
            continue;
        }
        let mut g = DocGen { rng, budget: p.doc_nodes, entities: vec![], markup_text: false };
        docs.push((g.document(), p.expanded));
    }
    docs
}

// ---------------------------------------------------------------------------------------------
// queries

pub fn diff_query_pool(rng: &mut Rng) -> Vec<String> {
    let all: Vec<String> = vec![
        "//*".into(),
        "//node()".into(),
        "//@*".into(),
        "//text()".into(),
        "//comment()".into(),
        "//a|//b".into(),
        "//b|//a|//c".into(),
        "(//*)[2]".into(),
        "(//*)[last()]".into(),
        "//*[last()]".into(),
        "//*[1]".into(),
        "/*/*[1]/following::*".into(),
        "//b/preceding::*".into(),
        "//*/ancestor::*".into(),
        "//a/following-sibling::*".into(),
        "//c/preceding-sibling::node()".into(),
        "//*[@x]".into(),
        "//*/@*[1]".into(),
        "//p:d".into(),
        "//q:e/descendant::node()".into(),
        "/*/node()[2]".into(),
        "//*/*[2]/preceding-sibling::*[1]".into(),
        "//a/descendant-or-self::*".into(),
        "(//b|//a)[1]".into(),
        "//@x|//@y".into(),
        "//*[count(*)>1]/*[2]".into(),
        "/descendant::*[3]".into(),
        "//f/ancestor-or-self::*".into(),
        "(//node())[last()]".into(),
        "//*[not(*)]".into(),
        "//@*/..".into(),
        "//processing-instruction('pi-x')".into(),
        "//processing-instruction()".into(),
        "//@*/ancestor::*".into(),
        // namespace nodes: only counted (their relative order is implementation-defined)
        "count(//namespace::*)".into(),
        "count(/*/*/namespace::* | /*/*/@*)".into(),
        "count(//*/namespace::*[1])".into(),
    ];
    let n = rng.range(6, 12);
    let mut out = vec![];
    for _ in 0..n {
        let q = rng.pick(&all).clone();
        if !out.contains(&q) {
            out.push(q);
        }
    }
    out
}

fn query_expr(rng: &mut Rng, failing: bool) -> String {
    let ok: &[&str] = &[
        "//*",
        "count(//*)",
        "//a",
        "//b/@x",
        "count(//@*)",
        "//text()",
        "string(/*)",
        "position()",
        "last()",
        "(//*)[position()=last()]",
        "count(//*[position()=2])",
        "//*[2]",
        "//*[last()]",
        "name(/*)",
        "namespace-uri(/*)",
        "//p:d",
        "count(//p:d)",
        "//a|//b",
        "//*/following-sibling::*[1]",
        "//*[@x='a']",
        "boolean(//c)",
        "sum(//@id)",
        "//*[count(*)=0]",
        "string-length(string(/*))",
        "//comment()",
        "/*/node()",
        "//a/ancestor::*",
        "//b/preceding::*",
        "1 + count(//a) * 2",
        "normalize-space(/*)",
        "//*[position() < 3]",
        "(//a)[1]/following::*",
        "//@xml:*",
        "//namespace::*",
        "/*/namespace::*",
        "//*[2]/namespace::p",
        "//@xml:lang",
        "//*[@xml:lang]",
        "count(//@xml:*)",
        "//@p:*",
        "//p:*",
        "//q:*",
        "//*[@p:w]",
        "//zz:*",
        "//@zz:x",
        "string(//@xml:lang)",
        "//*[lang('en')]",
        "//@x/..",
        "//@*/parent::*",
        "//@id/ancestor::*",
        "//processing-instruction('t')",
        "//processing-instruction('pi-x')",
        "count(//processing-instruction())",
        // which attribute is the last / the second one (attributes present through DTD defaults included)
        "name(//b/@*[last()])",
        "string(//a/@*[2])",
        "name(//*/@*[2])",
    ];
    let bad: &[&str] = &[
        "//*[count(1)]",
        "//*[unknown()]",
        "//*[zz:x]",
        "(//*)[sum(1)]",
        "//*[*[count(1)]]",
        "//*[*[*[unknown()]]]",
        "(//*)[(//*)[zz:y]]",
        "/*/*[count(1,2,3)]",
        "//a[last(1)]",
        "//*[position(1)]",
        "(//*)[zz:f()]",
        "//*[zz:*]",
        "$v",
        "//*[$v]",
        "count($v)",
        "count(",
        "//*[",
        "//*]",
    ];
    if failing && rng.pct(35) {
        rng.pick(bad).to_string()
    } else {
        rng.pick(ok).to_string()
    }
}

// ---------------------------------------------------------------------------------------------
// tasks

#[derive(Clone, Debug)]
pub enum Proc {
    /// xe-style replace: snapshot-iterate children removing each, then rebuild
    XeReplace { el: S, vec: Option<S>, idx: usize, len: usize, rebuild: usize, tmp: Option<S> },
    /// `while list.length()>0 { remove(list.item(0)) }`
    LiveDelete { el: S, list: Option<S>, item: Option<S>, left: usize, by_index: bool, idx: usize },
    /// build a subtree detached, then attach it
    BuildDetached { root: Option<S>, made: usize, target: S, last: Option<S> },
    /// split a text node and re-join it
    SplitJoin { text: S, tail: Option<S>, stage: usize },
    /// attribute churn on one element
    AttrChurn { el: S, left: usize },
    /// two text nodes appended one after the other whose data only meet at the node boundary
    TextPair { el: S, a: String, b: String, node: Option<S>, stage: usize },
    /// edit the text node inside an attribute value through its CharacterData interface
    AttrTextEdit { el: S, attr: Option<S>, text: Option<S>, stage: usize },
    /// declare a namespace through the attribute-node interface: create_attribute("xmlns:n"), set_value, set_attribute_node
    NsDeclare { el: S, attr: Option<S>, n: usize, stage: usize },
    /// (text-expanded documents) take the merged text handle of an element, let one of its pieces leave through
    /// the piece's own handle, then use the stale merged handle as old child of replace_child
    StaleRunReplace { el: S, piece: Option<S>, run: Option<S>, new: Option<S>, stage: usize },
}

#[derive(Clone, Debug)]
pub struct Task {
    pub id: usize,
    pub kind: usize, // 0 editor, 1 navigator, 2 querier, 3 procedures
    pub ctx: Option<S>,
    pub proc: Option<Proc>,
}

pub struct Gen {
    pub rng: Rng,
    pub p: Profile,
    pub tasks: Vec<Task>,
    pub next_slot: S,
    pub owner: Vec<usize>,
    pub born: Vec<usize>,
    pub step_no: usize,
    pub faults: std::collections::BTreeMap<&'static str, usize>,
}

impl Gen {
    pub fn new(rng: Rng, p: Profile) -> Gen {
        let mut tasks = vec![];
        for i in 0..p.n_tasks {
            let kind = if i == 0 { 0 } else { [0usize, 1, 2, 3, 3][i % 5] };
            tasks.push(Task { id: i, kind, ctx: None, proc: None });
        }
        Gen { rng, p, tasks, next_slot: 0, owner: vec![], born: vec![], step_no: 0, faults: Default::default() }
    }

    fn fresh(&mut self, task: usize) -> S {
        let s = self.next_slot;
        self.next_slot += 1;
        while self.owner.len() <= s {
            self.owner.push(usize::MAX);
            self.born.push(0);
        }
        self.owner[s] = task;
        self.born[s] = self.step_no;
        s
    }

    fn fault(&mut self, k: &'static str) {
        *self.faults.entry(k).or_insert(0) += 1;
    }

    fn nodes(&self, w: &World, pred: impl Fn(&MNode) -> bool) -> Vec<S> {
        let mut v = vec![];
        for (i, s) in w.model.slots.iter().enumerate() {
            if let Some(MSlot::Node(m)) = s {
                if pred(&w.model.nodes[*m]) {
                    v.push(i);
                }
            }
        }
        v
    }

    /// pick a slot, biased towards handles another task touched recently (fault F4)
    fn pick_slot(&mut self, task: usize, cands: &[S]) -> Option<S> {
        if cands.is_empty() {
            return None;
        }
        if self.rng.pct(self.p.stale_pct) {
            let recent: Vec<S> = cands
                .iter()
                .cloned()
                .filter(|s| self.owner.get(*s).map(|o| *o != task).unwrap_or(false) && self.born.get(*s).map(|b| b + 4 > self.step_no).unwrap_or(false))
                .collect();
            if !recent.is_empty() {
                self.fault("F4_stale_handle_candidate");
                return Some(*self.rng.pick(&recent));
            }
        }
        Some(*self.rng.pick(cands))
    }

    fn data_string(&mut self, markup_ok: bool) -> String {
        let n = self.rng.range(0, 5);
        let mut s = String::new();
        for _ in 0..n {
            if markup_ok && self.rng.pct(self.p.markup_pct) {
                s.push_str(self.rng.ps(MARKUP_CHARS));
            } else if self.rng.pct(5) {
                s.push_str(self.rng.ps(WS_CHARS));
            } else {
                s.push_str(self.rng.ps(SAFE_CHARS));
            }
        }
        if markup_ok && self.rng.pct(self.p.markup_pct / 3) {
            s = self.rng.ps(&["]]>", "--", "?>", "-", "]]", ">", "]", "]>", "a]", "]>b", ">b", "a]]", "-a", "a-", "'", "\"", "'\"", "<!--", "&amp;", "&#60;", "<b/>", "&nope;", "u&nope;v", "&e1;", "a&e2;", "é-", "𝒳--", "é]]>", "𝒳?>", "\u{301}-", ">é𝒳", "é<"]).to_string();
        }
        s
    }

    fn offset(&mut self, len: usize) -> usize {
        match self.rng.below(12) {
            0 => 0,
            1 => 1,
            2 => len.saturating_sub(1),
            3 => len,
            4 => len + 1,
            5 => len + 2,
            6 => usize::MAX,
            7 => usize::MAX - 1,
            _ => self.rng.range(0, len),
        }
    }

    fn count(&mut self, len: usize, off: usize) -> usize {
        match self.rng.below(12) {
            0 => 0,
            1 => 1,
            2 => len.saturating_sub(off.min(len)),
            3 => len,
            4 => len + 1,
            5 => len + 2,
            6 => usize::MAX,
            7 => usize::MAX - off.min(usize::MAX),
            8 => usize::MAX - 1,
            _ => self.rng.range(0, len + 1),
        }
    }

    fn name(&mut self, pool: &[&str]) -> String {
        if self.rng.pct(self.p.illegal_pct) {
            self.fault("F1_illegal_name");
            if self.rng.pct(25) {
                self.rng.ps(ODD_NAMES).to_string()
            } else {
                self.rng.ps(BAD_NAMES).to_string()
            }
        } else {
            self.rng.pick(pool).to_string()
        }
    }

    // -- single-call generators ----------------------------------------------------------------

    fn gen_struct(&mut self, w: &World, task: usize) -> Option<Op> {
        let want_illegal = self.rng.pct(self.p.illegal_pct);
        let containers = self.nodes(w, |n| matches!(n.kind, Kind::Element | Kind::Document | Kind::Attr));
        let elements = self.nodes(w, |n| n.kind == Kind::Element);
        let any = self.nodes(w, |_| true);
        if any.is_empty() {
            return None;
        }
        if !elements.is_empty() && self.rng.pct(5) {
            let el = self.pick_slot(task, &elements)?;
            return Some(Op::Normalize { el });
        }
        let mut best: Option<Op> = None;
        for _try in 0..14 {
            let recv = if want_illegal && self.rng.pct(25) {
                self.pick_slot(task, &any)?
            } else if self.rng.pct(80) && !elements.is_empty() {
                self.pick_slot(task, &elements)?
            } else if !containers.is_empty() {
                self.pick_slot(task, &containers)?
            } else {
                self.pick_slot(task, &any)?
            };
            let rm = w.model.node_slot(recv)?;
            let mut kids: Vec<S> = self.nodes(w, |_| true).into_iter().filter(|s| w.model.node_slot(*s).map(|m| w.model.nodes[m].parent == Some(rm)).unwrap_or(false)).collect();
            // merged text handles (text-expanded view) whose pieces are children of the receiver
            for (i, sl) in w.model.slots.iter().enumerate() {
                if let Some(MSlot::Run(r)) = sl {
                    if r.first().map(|h| w.model.nodes[*h].parent == Some(rm)).unwrap_or(false) {
                        kids.push(i);
                    }
                }
            }
            let out = self.next_slot;
            let runs: Vec<S> = w.model.slots.iter().enumerate().filter(|(_, s)| matches!(s, Some(MSlot::Run(_)))).map(|(i, _)| i).collect();
            let op = match self.rng.below(10) {
                0..=2 => {
                    let new = if want_illegal && !runs.is_empty() && self.rng.pct(30) { *self.rng.pick(&runs) } else { self.pick_slot(task, &any)? };
                    Op::AppendChild { recv, new, out }
                }
                3..=5 => {
                    let new = self.pick_slot(task, &any)?;
                    let refc = if !kids.is_empty() && !(want_illegal && self.rng.pct(50)) {
                        Some(*self.rng.pick(&kids))
                    } else if self.rng.pct(50) {
                        None
                    } else {
                        self.pick_slot(task, &any)
                    };
                    Op::InsertBefore { recv, new, refc, out }
                }
                6..=7 => {
                    let old = if !kids.is_empty() && !(want_illegal && self.rng.pct(60)) { *self.rng.pick(&kids) } else { self.pick_slot(task, &any)? };
                    Op::RemoveChild { recv, old, out }
                }
                _ => {
                    let new = self.pick_slot(task, &any)?;
                    let old = if !kids.is_empty() && !(want_illegal && self.rng.pct(60)) { *self.rng.pick(&kids) } else { self.pick_slot(task, &any)? };
                    Op::ReplaceChild { recv, new, old, out }
                }
            };
            let plan = w.model.plan(&Step { task, op: op.clone() });
            if plan.skip {
                continue;
            }
            if plan.illegal == want_illegal {
                best = Some(op);
                break;
            }
            if best.is_none() {
                best = Some(op);
            }
        }
        let op = best?;
        let plan = w.model.plan(&Step { task, op: op.clone() });
        if plan.illegal {
            self.fault("F1_illegal_structure_call");
        }
        // claim the out slot
        let out = self.fresh(task);
        Some(match op {
            Op::AppendChild { recv, new, .. } => Op::AppendChild { recv, new, out },
            Op::InsertBefore { recv, new, refc, .. } => Op::InsertBefore { recv, new, refc, out },
            Op::RemoveChild { recv, old, .. } => Op::RemoveChild { recv, old, out },
            Op::ReplaceChild { recv, new, old, .. } => Op::ReplaceChild { recv, new, old, out },
            o => o,
        })
    }

    fn gen_attr(&mut self, w: &World, task: usize) -> Option<Op> {
        let elements = self.nodes(w, |n| n.kind == Kind::Element);
        let attrs = self.nodes(w, |n| n.kind == Kind::Attr);
        let el = self.pick_slot(task, &elements)?;
        Some(match self.rng.below(12) {
            0..=3 => {
                let name = self.name(ATTR_NAMES);
                let value = self.data_string(true);
                Op::SetAttribute { el, name, value }
            }
            4 => {
                let name = if self.rng.pct(10) { "nope".to_string() } else { local_of(self.rng.ps(ATTR_NAMES)).to_string() };
                Op::RemoveAttribute { el, name }
            }
            5..=6 => {
                let attr = self.pick_slot(task, &attrs)?;
                let out = self.fresh(task);
                let st = Step { task, op: Op::SetAttributeNode { el, attr, out } };
                if w.model.plan(&st).illegal {
                    self.fault("F1_illegal_attr_call");
                }
                st.op
            }
            7 => {
                let attr = self.pick_slot(task, &attrs)?;
                let out = self.fresh(task);
                let st = Step { task, op: Op::RemoveAttributeNode { el, attr, out } };
                if w.model.plan(&st).illegal {
                    self.fault("F1_illegal_attr_call");
                }
                st.op
            }
            8 => {
                let out = self.fresh(task);
                Op::AttrMap { node: el, out }
            }
            9 => {
                let maps: Vec<S> = w.model.slots.iter().enumerate().filter(|(_, s)| matches!(s, Some(MSlot::Map(_)))).map(|(i, _)| i).collect();
                if maps.is_empty() {
                    let out = self.fresh(task);
                    Op::AttrMap { node: el, out }
                } else {
                    let map = *self.rng.pick(&maps);
                    let out = self.fresh(task);
                    if self.rng.pct(50) && !attrs.is_empty() {
                        let attr = self.pick_slot(task, &attrs)?;
                        Op::MapSetNamedItem { map, attr, out }
                    } else {
                        let name = local_of(self.rng.ps(ATTR_NAMES)).to_string();
                        Op::MapRemoveNamedItem { map, name, out }
                    }
                }
            }
            _ => {
                let node = self.pick_slot(task, &attrs).or(Some(el))?;
                let value = self.data_string(true);
                Op::SetValue { node, value }
            }
        })
    }

    fn gen_data(&mut self, w: &World, task: usize) -> Option<Op> {
        let runs: Vec<(S, usize)> = w
            .model
            .slots
            .iter()
            .enumerate()
            .filter_map(|(i, s)| match s {
                Some(MSlot::Run(r)) => Some((i, chars_len(&w.model.run_data(r)))),
                _ => None,
            })
            .collect();
        if !runs.is_empty() && self.rng.pct(25) {
            let (node, len) = *self.rng.pick(&runs);
            let off = if self.rng.pct(self.p.illegal_pct) { *self.rng.pick(&[len + 1, len + 2, usize::MAX]) } else { self.rng.range(0, len) };
            let cnt = self.count(len, off);
            return Some(Op::Substring { node, off, cnt });
        }
        let cds = self.nodes(w, |n| n.kind.is_chardata());
        let pis = self.nodes(w, |n| n.kind == Kind::PI);
        if cds.is_empty() || (self.rng.pct(8) && !pis.is_empty()) {
            let node = self.pick_slot(task, &pis)?;
            let value = self.data_string(true);
            return Some(Op::SetValue { node, value });
        }
        let node = self.pick_slot(task, &cds)?;
        let m = w.model.node_slot(node)?;
        let len = chars_len(&w.model.nodes[m].data);
        let kind = w.model.nodes[m].kind;
        if self.rng.pct(12) {
            let data = w.model.nodes[m].data.clone();
            if let Some(op) = self.seam_edit(node, &data) {
                return Some(op);
            }
        }
        if matches!(kind, Kind::Comment | Kind::CData) && self.rng.pct(6) {
            // a piece the node kind must refuse, with multi-byte characters in front of the offending tail:
            // the refusal has to leave every character of the old data in place
            let piece = if kind == Kind::Comment { self.rng.ps(&["é-", "𝒳--", "\u{301}-", "aé--b"]) } else { self.rng.ps(&["é]]>", "𝒳]]>x", "\u{301}]]>"]) };
            self.fault("F1_refused_multibyte_piece");
            let off = self.offset(len).min(len);
            return Some(if self.rng.pct(50) { Op::AppendData { node, data: piece.to_string() } } else { Op::InsertData { node, off, data: piece.to_string() } });
        }
        let illegal = self.rng.pct(self.p.illegal_pct);
        let off = if illegal {
            self.fault("F1_offset_beyond_length");
            *self.rng.pick(&[len + 1, len + 2, usize::MAX, usize::MAX - 1])
        } else {
            let o = self.offset(len);
            if o > len {
                self.rng.range(0, len)
            } else {
                o
            }
        };
        let cnt = self.count(len, off);
        Some(match self.rng.below(14) {
            0 => Op::SetData { node, data: self.data_string(true) },
            1..=2 => Op::AppendData { node, data: self.data_string(true) },
            3..=4 => Op::InsertData { node, off, data: self.data_string(true) },
            5..=7 => Op::DeleteData { node, off, cnt },
            8..=9 => Op::ReplaceData { node, off, cnt, data: self.data_string(true) },
            10..=11 => Op::Substring { node, off, cnt },
            _ => {
                if matches!(kind, Kind::Text | Kind::CData) {
                    let out = self.fresh(task);
                    Op::SplitText { node, off, out }
                } else {
                    Op::Substring { node, off, cnt }
                }
            }
        })
    }

    /// An edit placed where the inserted piece and the data already stored form a forbidden
    /// sequence only together (`]]` + `>`, `-` + `-`), at the left or at the right seam.
    fn seam_edit(&mut self, node: S, data: &str) -> Option<Op> {
        let chars: Vec<char> = data.chars().collect();
        let mut cands: Vec<(usize, &'static str)> = vec![];
        for i in 0..=chars.len() {
            let next = chars.get(i).copied();
            let next2 = chars.get(i + 1).copied();
            let prev = if i > 0 { Some(chars[i - 1]) } else { None };
            let prev2 = if i > 1 { Some(chars[i - 2]) } else { None };
            if next == Some('>') {
                cands.push((i, "]]"));
                cands.push((i, "a]]"));
            }
            if next == Some(']') && next2 == Some('>') {
                cands.push((i, "]"));
                cands.push((i, "x]"));
            }
            if next == Some('-') {
                cands.push((i, "-"));
                cands.push((i, "a-"));
            }
            if prev == Some(']') && prev2 == Some(']') {
                cands.push((i, ">"));
                cands.push((i, ">b"));
            }
            if prev == Some(']') {
                cands.push((i, "]>"));
            }
            if prev == Some('-') {
                cands.push((i, "-"));
                cands.push((i, "-b"));
            }
            if prev == Some(']') && next == Some('>') {
                cands.push((i, "]"));
            }
        }
        if cands.is_empty() {
            return None;
        }
        let (at, piece) = *self.rng.pick(&cands);
        self.fault("F1_edit_at_markup_seam");
        Some(if self.rng.pct(50) {
            Op::InsertData { node, off: at, data: piece.to_string() }
        } else {
            // replace_data whose replaced range ends at (or just before) the seam
            let cnt = self.rng.below(2).min(at);
            Op::ReplaceData { node, off: at - cnt, cnt, data: piece.to_string() }
        })
    }

    fn gen_create(&mut self, w: &World, task: usize) -> Option<Op> {
        let doc = self.rng.below(w.model.docs.len());
        let out = self.fresh(task);
        Some(match self.rng.below(13) {
            0..=3 => Op::CreateElement { doc, name: self.name(EL_NAMES), out },
            4..=6 => Op::CreateText { doc, data: self.data_string(true), out },
            7 => Op::CreateComment { doc, data: self.data_string(true), out },
            8 => Op::CreateCData { doc, data: self.data_string(true), out },
            9 => Op::CreatePI { doc, target: if self.rng.pct(8) { "XmL".to_string() } else { self.name(PI_TARGETS) }, data: self.data_string(true), out },
            10 => Op::CreateAttr { doc, name: self.name(ATTR_NAMES), out },
            11 => Op::CreateEntRef { doc, name: self.rng.ps(&["amp", "lt", "e1", "e2", "nope", "1x"]).to_string(), out },
            _ => Op::CreateFragment { doc, out },
        })
    }

    fn gen_nav(&mut self, w: &World, task: usize) -> Option<Op> {
        let any = self.nodes(w, |n| n.kind != Kind::Fragment);
        let node = match self.pick_slot(task, &any) {
            Some(n) => n,
            None => {
                let out = self.fresh(task);
                return Some(Op::DocRoot { doc: 0, out });
            }
        };
        Some(match self.rng.below(16) {
            0 => Op::Nav { node, which: NavKind::Parent, out: self.fresh(task) },
            1..=2 => Op::Nav { node, which: NavKind::First, out: self.fresh(task) },
            3 => Op::Nav { node, which: NavKind::Last, out: self.fresh(task) },
            4 => Op::Nav { node, which: NavKind::Prev, out: self.fresh(task) },
            5..=6 => Op::Nav { node, which: NavKind::Next, out: self.fresh(task) },
            7 => Op::ChildIter { node, out: self.fresh(task) },
            8 => Op::ChildList { node, out: self.fresh(task) },
            9 => {
                let lists: Vec<S> = w.model.slots.iter().enumerate().filter(|(_, s)| matches!(s, Some(MSlot::List(_)))).map(|(i, _)| i).collect();
                if lists.is_empty() {
                    Op::ChildList { node, out: self.fresh(task) }
                } else {
                    let list = *self.rng.pick(&lists);
                    Op::ListItem { list, idx: self.rng.below(4), out: self.fresh(task) }
                }
            }
            10..=11 => {
                let vecs: Vec<(S, usize)> = w
                    .model
                    .slots
                    .iter()
                    .enumerate()
                    .filter_map(|(i, s)| match s {
                        Some(MSlot::Vec(v, _)) if !v.is_empty() => Some((i, v.len())),
                        _ => None,
                    })
                    .collect();
                if vecs.is_empty() {
                    Op::ByTag { node, name: if self.rng.pct(50) { "*".into() } else { local_of(self.rng.ps(EL_NAMES)).to_string() }, out: self.fresh(task) }
                } else {
                    let (vec, len) = *self.rng.pick(&vecs);
                    Op::VecItem { vec, idx: self.rng.below(len), out: self.fresh(task) }
                }
            }
            12 => {
                let held: Vec<S> = w.model.slots.iter().enumerate().filter(|(_, s)| matches!(s, Some(MSlot::TagList(..)))).map(|(i, _)| i).collect();
                let name = if self.rng.pct(50) { "*".to_string() } else { local_of(self.rng.ps(EL_NAMES)).to_string() };
                if !held.is_empty() && self.rng.pct(55) {
                    Op::TagListRead { list: *self.rng.pick(&held), out: self.fresh(task) }
                } else if self.rng.pct(45) {
                    // lists taken from the document node are the ones that outlive a change of the document element
                    let docs: Vec<S> = self.nodes(w, |n| n.kind == Kind::Document);
                    let from = if self.rng.pct(50) { self.pick_slot(task, &docs).unwrap_or(node) } else { node };
                    Op::TagList { node: from, name, out: self.fresh(task) }
                } else {
                    Op::ByTag { node, name, out: self.fresh(task) }
                }
            }
            13 => Op::GetAttrNode { el: node, name: local_of(self.rng.ps(ATTR_NAMES)).to_string(), out: self.fresh(task) },
            14 => {
                let maps: Vec<S> = w.model.slots.iter().enumerate().filter(|(_, s)| matches!(s, Some(MSlot::Map(_)))).map(|(i, _)| i).collect();
                if maps.is_empty() {
                    Op::AttrMap { node, out: self.fresh(task) }
                } else {
                    let map = *self.rng.pick(&maps);
                    if self.rng.pct(50) {
                        Op::MapItem { map, idx: self.rng.below(3), out: self.fresh(task) }
                    } else {
                        Op::MapGet { map, name: local_of(self.rng.ps(ATTR_NAMES)).to_string(), out: self.fresh(task) }
                    }
                }
            }
            _ => Op::Touch { node },
        })
    }

    fn gen_query(&mut self, w: &World, task: usize) -> Option<Op> {
        let ctx = match self.tasks[task].ctx {
            Some(c) if matches!(w.model.slot(c), Some(MSlot::Ctx(_))) => c,
            _ => {
                let out = self.fresh(task);
                self.tasks[task].ctx = Some(out);
                let ns = match self.rng.below(3) {
                    0 => vec![("p".to_string(), "urn:p".to_string()), ("q".to_string(), "urn:q".to_string())],
                    1 => vec![("p".to_string(), "urn:p".to_string()), ("q".to_string(), "urn:q".to_string()), ("".to_string(), "urn:d".to_string())],
                    _ => vec![("p".to_string(), "urn:q".to_string()), ("q".to_string(), "urn:p".to_string())],
                };
                return Some(Op::NewCtx { out, ns });
            }
        };
        if self.rng.pct(6) {
            // the caller re-binds or removes a prefix on the context it keeps re-using
            let prefix = self.rng.ps(&["p", "q", "", "p"]).to_string();
            let uri = self.rng.ps(&["urn:p", "urn:q", "urn:d", "", "urn:other"]).to_string();
            return Some(Op::CtxNs { ctx, prefix, uri });
        }
        let doc = self.rng.below(w.model.docs.len());
        let expr = query_expr(&mut self.rng, self.p.failing_queries);
        let out = self.fresh(task);
        Some(Op::Query { ctx, doc, expr, out })
    }

    fn gen_drop(&mut self, w: &World, task: usize) -> Option<Op> {
        let live: Vec<S> = w
            .model
            .slots
            .iter()
            .enumerate()
            .filter(|(_, s)| match s {
                Some(MSlot::Ctx(_)) | None => false,
                Some(MSlot::Node(m)) => w.model.nodes[*m].kind != Kind::Document,
                _ => true,
            })
            .map(|(i, _)| i)
            .collect();
        if live.is_empty() {
            return None;
        }
        self.fault("F3_handle_drop");
        if self.rng.pct(8) {
            let keep: Vec<S> = w
                .model
                .slots
                .iter()
                .enumerate()
                .filter(|(_, s)| matches!(s, Some(MSlot::Node(m)) if w.model.nodes[*m].kind == Kind::Document))
                .map(|(i, _)| i)
                .collect();
            return Some(Op::DropAllBut { keep });
        }
        // prefer roots of detached subtrees: that is where lifetimes matter
        let roots: Vec<S> = live
            .iter()
            .cloned()
            .filter(|s| match w.model.slot(*s) {
                Some(MSlot::Node(m)) => w.model.nodes[*m].parent.is_none() && w.model.nodes[*m].owner_el.is_none(),
                _ => false,
            })
            .collect();
        let slot = if !roots.is_empty() && self.rng.pct(50) { *self.rng.pick(&roots) } else { self.pick_slot(task, &live)? };
        Some(Op::Drop { slot })
    }

    fn gen_check(&mut self, w: &World, _task: usize) -> Option<Op> {
        let doc = self.rng.below(w.model.docs.len());
        if self.rng.pct(15) && self.p.illegal_pct > 0 {
            self.fault("F1_readonly_map_mutation");
            return Some(Op::DtMap { doc, which: self.rng.below(4), name: self.rng.ps(&["e1", "e2", "nope"]).to_string() });
        }
        if self.rng.pct(6) {
            return Some(Op::Probe { doc, which: self.rng.below(4) });
        }
        if self.rng.pct(12) && self.step_no > 6 {
            // fault F5: crash and restart from the serialisation; all handles into the document are lost
            self.fault("F5_restart");
            return Some(Op::Restart { doc });
        }
        Some(if self.rng.pct(60) { Op::Checkpoint { doc } } else { Op::Reparse { doc } })
    }

    // -- procedures ----------------------------------------------------------------------------

    fn start_proc(&mut self, w: &World, task: usize) -> Option<Proc> {
        let elements = self.nodes(w, |n| n.kind == Kind::Element);
        let texts = self.nodes(w, |n| n.kind == Kind::Text && n.parent.is_some());
        match self.rng.below(9) {
            8 => Some(Proc::StaleRunReplace { el: self.pick_slot(task, &elements)?, piece: None, run: None, new: None, stage: 0 }),
            7 => Some(Proc::NsDeclare { el: self.pick_slot(task, &elements)?, attr: None, n: self.rng.range(1, 5), stage: 0 }),
            5 => {
                let (a, b) = *self.rng.pick(&[("a]]", ">b"), ("a]", "]>b"), ("]", "]>"), ("]]", ">"), ("x]", "]"), ("-", "-"), ("a", "b")]);
                Some(Proc::TextPair { el: self.pick_slot(task, &elements)?, a: a.to_string(), b: b.to_string(), node: None, stage: 0 })
            }
            6 => Some(Proc::AttrTextEdit { el: self.pick_slot(task, &elements)?, attr: None, text: None, stage: 0 }),
            0 => Some(Proc::XeReplace { el: self.pick_slot(task, &elements)?, vec: None, idx: 0, len: 0, rebuild: self.rng.range(1, 3), tmp: None }),
            1 => Some(Proc::LiveDelete { el: self.pick_slot(task, &elements)?, list: None, item: None, left: 6, by_index: self.rng.pct(40), idx: 0 }),
            2 => Some(Proc::BuildDetached { root: None, made: 0, target: self.pick_slot(task, &elements)?, last: None }),
            3 => Some(Proc::SplitJoin { text: self.pick_slot(task, &texts)?, tail: None, stage: 0 }),
            _ => Some(Proc::AttrChurn { el: self.pick_slot(task, &elements)?, left: self.rng.range(2, 5) }),
        }
    }

    fn step_proc(&mut self, w: &World, task: usize) -> Option<Op> {
        let pr = match self.tasks[task].proc.clone() {
            Some(p) => p,
            None => {
                let p = self.start_proc(w, task)?;
                self.tasks[task].proc = Some(p.clone());
                p
            }
        };
        // F2: the task dies between two calls of its procedure
        if self.rng.pct(self.p.crash_pct) {
            self.fault("F2_task_crash_mid_procedure");
            self.tasks[task].proc = None;
            return None;
        }
        let (op, next): (Option<Op>, Option<Proc>) = match pr {
            Proc::XeReplace { el, vec, idx, len, rebuild, tmp } => match vec {
                None => {
                    let out = self.fresh(task);
                    let m = w.model.node_slot(el)?;
                    let len = w.model.nodes[m].children.len();
                    (Some(Op::ChildIter { node: el, out }), Some(Proc::XeReplace { el, vec: Some(out), idx: 0, len, rebuild, tmp: None }))
                }
                Some(v) if idx < len => match tmp {
                    None => {
                        let out = self.fresh(task);
                        (Some(Op::VecItem { vec: v, idx, out }), Some(Proc::XeReplace { el, vec, idx, len, rebuild, tmp: Some(out) }))
                    }
                    Some(t) => {
                        let out = self.fresh(task);
                        (Some(Op::RemoveChild { recv: el, old: t, out }), Some(Proc::XeReplace { el, vec, idx: idx + 1, len, rebuild, tmp: None }))
                    }
                },
                Some(_) if rebuild > 0 => match tmp {
                    None => {
                        let out = self.fresh(task);
                        let doc = w.model.node_slot(el).map(|m| w.model.nodes[m].doc).unwrap_or(0);
                        let op = match self.rng.below(3) {
                            0 => Op::CreateElement { doc, name: self.rng.ps(EL_NAMES).to_string(), out },
                            1 => Op::CreateText { doc, data: self.data_string(false), out },
                            _ => Op::CreateComment { doc, data: "c".into(), out },
                        };
                        (Some(op), Some(Proc::XeReplace { el, vec, idx, len, rebuild, tmp: Some(out) }))
                    }
                    Some(t) => {
                        let out = self.fresh(task);
                        (Some(Op::AppendChild { recv: el, new: t, out }), Some(Proc::XeReplace { el, vec, idx, len, rebuild: rebuild - 1, tmp: None }))
                    }
                },
                _ => (None, None),
            },
            Proc::LiveDelete { el, list, item, left, by_index, idx } => match list {
                None => {
                    let out = self.fresh(task);
                    (Some(Op::ChildList { node: el, out }), Some(Proc::LiveDelete { el, list: Some(out), item: None, left, by_index, idx }))
                }
                Some(l) if left > 0 => match item {
                    None => {
                        let out = self.fresh(task);
                        (Some(Op::ListItem { list: l, idx, out }), Some(Proc::LiveDelete { el, list, item: Some(out), left, by_index, idx }))
                    }
                    Some(it) => {
                        let out = self.fresh(task);
                        if w.model.node_slot(it).is_none() {
                            (None, None)
                        } else {
                            let nidx = if by_index { idx + 1 } else { 0 };
                            (Some(Op::RemoveChild { recv: el, old: it, out }), Some(Proc::LiveDelete { el, list, item: None, left: left - 1, by_index, idx: nidx }))
                        }
                    }
                },
                _ => (None, None),
            },
            Proc::BuildDetached { root, made, target, last } => match root {
                None => {
                    let out = self.fresh(task);
                    let doc = w.model.node_slot(target).map(|m| w.model.nodes[m].doc).unwrap_or(0);
                    (Some(Op::CreateElement { doc, name: self.rng.ps(EL_NAMES).to_string(), out }), Some(Proc::BuildDetached { root: Some(out), made: 0, target, last: None }))
                }
                Some(r) if made < 3 => match last {
                    None => {
                        let out = self.fresh(task);
                        let doc = w.model.node_slot(target).map(|m| w.model.nodes[m].doc).unwrap_or(0);
                        let op = match self.rng.below(3) {
                            0 => Op::CreateElement { doc, name: self.rng.ps(EL_NAMES).to_string(), out },
                            1 => Op::CreateText { doc, data: self.data_string(false), out },
                            _ => Op::CreateAttr { doc, name: self.rng.ps(ATTR_NAMES).to_string(), out },
                        };
                        (Some(op), Some(Proc::BuildDetached { root, made, target, last: Some(out) }))
                    }
                    Some(l) => {
                        let out = self.fresh(task);
                        let is_attr = w.model.node_slot(l).map(|m| w.model.nodes[m].kind == Kind::Attr).unwrap_or(false);
                        let op = if is_attr { Op::SetAttributeNode { el: r, attr: l, out } } else { Op::AppendChild { recv: r, new: l, out } };
                        (Some(op), Some(Proc::BuildDetached { root, made: made + 1, target, last: None }))
                    }
                },
                Some(r) => {
                    let out = self.fresh(task);
                    (Some(Op::AppendChild { recv: target, new: r, out }), None)
                }
            },
            Proc::SplitJoin { text, tail, stage } => match stage {
                0 => {
                    let out = self.fresh(task);
                    let len = w.model.node_slot(text).map(|m| chars_len(&w.model.nodes[m].data)).unwrap_or(0);
                    (Some(Op::SplitText { node: text, off: self.rng.range(0, len), out }), Some(Proc::SplitJoin { text, tail: Some(out), stage: 1 }))
                }
                1 => {
                    let t = tail?;
                    // the other way of joining the halves again: normalize() on an element above them
                    let mut norm: Option<S> = None;
                    if self.rng.pct(40) {
                        let tm = w.model.node_slot(t);
                        let above: Vec<S> = self
                            .nodes(w, |n| n.kind == Kind::Element)
                            .into_iter()
                            .filter(|s| match (w.model.node_slot(*s), tm) {
                                (Some(e), Some(tm)) => {
                                    let mut cur = w.model.nodes[tm].parent;
                                    let mut hit = false;
                                    while let Some(c) = cur {
                                        if c == e {
                                            hit = true;
                                            break;
                                        }
                                        cur = w.model.nodes[c].parent;
                                    }
                                    hit
                                }
                                _ => false,
                            })
                            .collect();
                        if !above.is_empty() {
                            norm = Some(*self.rng.pick(&above));
                        }
                    }
                    if let Some(el) = norm {
                        (Some(Op::Normalize { el }), None)
                    } else {
                    let data = w.model.node_slot(t).map(|m| w.model.nodes[m].data.clone()).unwrap_or_default();
                        (Some(Op::AppendData { node: text, data }), Some(Proc::SplitJoin { text, tail, stage: 2 }))
                    }
                }
                2 => {
                    let t = tail?;
                    let parent_slot = self
                        .nodes(w, |_| true)
                        .into_iter()
                        .find(|s| w.model.node_slot(*s).is_some() && w.model.node_slot(t).map(|tm| w.model.nodes[tm].parent == w.model.node_slot(*s)).unwrap_or(false));
                    match parent_slot {
                        Some(p) => {
                            let out = self.fresh(task);
                            (Some(Op::RemoveChild { recv: p, old: t, out }), None)
                        }
                        None => {
                            let out = self.fresh(task);
                            (Some(Op::Nav { node: t, which: NavKind::Parent, out }), Some(Proc::SplitJoin { text, tail, stage: 2 }))
                        }
                    }
                }
                _ => (None, None),
            },
            Proc::TextPair { el, a, b, node, stage } => {
                let doc = w.model.node_slot(el).map(|m| w.model.nodes[m].doc).unwrap_or(0);
                match stage {
                    0 | 2 => {
                        let out = self.fresh(task);
                        let data = if stage == 0 { a.clone() } else { b.clone() };
                        (Some(Op::CreateText { doc, data, out }), Some(Proc::TextPair { el, a, b, node: Some(out), stage: stage + 1 }))
                    }
                    1 | 3 => {
                        let n = node?;
                        let out = self.fresh(task);
                        // (then, sometimes, normalize(): the two halves become one node holding the joined data, which
                        // must still be written so that it parses back)
                        let next = if stage == 1 {
                            Some(Proc::TextPair { el, a, b, node: None, stage: 2 })
                        } else if self.rng.pct(35) {
                            Some(Proc::TextPair { el, a, b, node: None, stage: 4 })
                        } else {
                            None
                        };
                        (Some(Op::AppendChild { recv: el, new: n, out }), next)
                    }
                    4 => (Some(Op::Normalize { el }), None),
                    _ => (None, None),
                }
            }
            Proc::AttrTextEdit { el, attr, text, stage } => match stage {
                0 => {
                    let name = self.rng.ps(&["x", "y", "z"]).to_string();
                    let value = self.rng.ps(&["v", "a b", "1"]).to_string();
                    (Some(Op::SetAttribute { el, name: name.clone(), value }), Some(Proc::AttrTextEdit { el, attr: None, text: None, stage: 1 }))
                }
                1 => {
                    let out = self.fresh(task);
                    let name = self.rng.ps(&["x", "y", "z"]).to_string();
                    (Some(Op::GetAttrNode { el, name, out }), Some(Proc::AttrTextEdit { el, attr: Some(out), text: None, stage: 2 }))
                }
                2 => {
                    let a = attr?;
                    w.model.node_slot(a)?;
                    let out = self.fresh(task);
                    (Some(Op::Nav { node: a, which: NavKind::First, out }), Some(Proc::AttrTextEdit { el, attr, text: Some(out), stage: 3 }))
                }
                3 | 4 => {
                    let t = text?;
                    let m = w.model.node_slot(t)?;
                    if !w.model.nodes[m].kind.is_chardata() {
                        return None;
                    }
                    let data = self.rng.ps(&["'", "\"", "'\"", "\"'", "]]>", ">", "a"]).to_string();
                    let op = if self.rng.pct(60) { Op::AppendData { node: t, data } } else { Op::InsertData { node: t, off: 0, data } };
                    (Some(op), if stage == 3 { Some(Proc::AttrTextEdit { el, attr, text, stage: 4 }) } else { None })
                }
                _ => (None, None),
            },
            Proc::StaleRunReplace { el, piece, run, new, stage } => {
                let m = w.model.node_slot(el)?;
                let doc = w.model.nodes[m].doc;
                match stage {
                    0 => {
                        let out = self.fresh(task);
                        (Some(Op::CreateText { doc, data: "s".into(), out }), Some(Proc::StaleRunReplace { el, piece: Some(out), run, new, stage: 1 }))
                    }
                    1 => {
                        let out = self.fresh(task);
                        (Some(Op::AppendChild { recv: el, new: piece?, out }), Some(Proc::StaleRunReplace { el, piece, run, new, stage: 2 }))
                    }
                    2 => {
                        let out = self.fresh(task);
                        (Some(Op::Nav { node: el, which: NavKind::Last, out }), Some(Proc::StaleRunReplace { el, piece, run: Some(out), new, stage: 3 }))
                    }
                    3 => {
                        let out = self.fresh(task);
                        // the piece leaves: removed, or moved into another element
                        let others: Vec<S> = self.nodes(w, |n| n.kind == Kind::Element).into_iter().filter(|s| *s != el).collect();
                        let op = if !others.is_empty() && self.rng.pct(50) {
                            Op::AppendChild { recv: *self.rng.pick(&others), new: piece?, out }
                        } else {
                            Op::RemoveChild { recv: el, old: piece?, out }
                        };
                        (Some(op), Some(Proc::StaleRunReplace { el, piece, run, new, stage: 4 }))
                    }
                    4 => {
                        let out = self.fresh(task);
                        (Some(Op::CreateElement { doc, name: "n".into(), out }), Some(Proc::StaleRunReplace { el, piece, run, new: Some(out), stage: 5 }))
                    }
                    5 => {
                        let out = self.fresh(task);
                        let op = if self.rng.pct(50) { Op::ReplaceChild { recv: el, new: new?, old: run?, out } } else { Op::RemoveChild { recv: el, old: run?, out } };
                        (Some(op), None)
                    }
                    _ => (None, None),
                }
            }
            Proc::NsDeclare { el, attr, n, stage } => match stage {
                0 => {
                    let out = self.fresh(task);
                    // n >= 4: a name that merely starts with the letters of the reserved stem
                    let name = match n {
                        4 => "xmlnsx".to_string(),
                        5 => "xmlnsfoo".to_string(),
                        _ => format!("xmlns:n{}", n),
                    };
                    (Some(Op::CreateAttr { doc: w.model.nodes[w.model.node_slot(el)?].doc, name, out }), Some(Proc::NsDeclare { el, attr: Some(out), n, stage: if n >= 4 { 2 } else { 1 } }))
                }
                1 => {
                    let a = attr?;
                    w.model.node_slot(a)?;
                    (Some(Op::SetValue { node: a, value: format!("urn:n{}", n) }), Some(Proc::NsDeclare { el, attr, n, stage: 2 }))
                }
                2 => {
                    let a = attr?;
                    w.model.node_slot(a)?;
                    w.model.node_slot(el)?;
                    let out = self.fresh(task);
                    (Some(Op::SetAttributeNode { el, attr: a, out }), None)
                }
                _ => (None, None),
            },
            Proc::AttrChurn { el, left } => {
                if left == 0 {
                    (None, None)
                } else {
                    let name = self.rng.ps(ATTR_NAMES).to_string();
                    let op = if self.rng.pct(65) {
                        Op::SetAttribute { el, name, value: self.data_string(false) }
                    } else {
                        Op::RemoveAttribute { el, name: local_of(&name).to_string() }
                    };
                    (Some(op), Some(Proc::AttrChurn { el, left: left - 1 }))
                }
            }
        };
        self.tasks[task].proc = next;
        op
    }

    /// The scheduler: which task moves, and what it does next.
    pub fn next_step(&mut self, w: &World) -> Step {
        self.step_no += 1;
        self.next_slot = self.next_slot.max(w.model.slots.len());
        for _ in 0..20 {
            let task = self.rng.below(self.tasks.len());
            let kind = self.tasks[task].kind;
            let p = &self.p;
            let weights: Vec<usize> = match kind {
                1 => vec![0, 0, 0, 0, p.w_nav * 3, p.w_query / 2, p.w_drop, 0, p.w_check],
                2 => vec![0, 0, 0, 0, p.w_nav, p.w_query * 4 + 20, p.w_drop, 0, p.w_check],
                3 => vec![p.w_struct / 2, p.w_attr / 2, p.w_data / 2, p.w_create / 2, p.w_nav, 0, p.w_drop, p.w_proc * 6 + 10, 0],
                _ => vec![p.w_struct, p.w_attr, p.w_data, p.w_create, p.w_nav, p.w_query, p.w_drop, p.w_proc, p.w_check],
            };
            // a task inside a procedure continues it
            let cat = if self.tasks[task].proc.is_some() { 7 } else { self.rng.weighted(&weights) };
            let op = match cat {
                0 => self.gen_struct(w, task),
                1 => self.gen_attr(w, task),
                2 => self.gen_data(w, task),
                3 => self.gen_create(w, task),
                4 => self.gen_nav(w, task),
                5 => self.gen_query(w, task),
                6 => self.gen_drop(w, task),
                7 => {
                    let o = self.step_proc(w, task);
                    if o.is_none() {
                        // the procedure cannot continue (its handles are gone): the task abandons it
                        self.tasks[task].proc = None;
                    }
                    o
                }
                _ => self.gen_check(w, task),
            };
            if let Some(op) = op {
                return Step { task, op };
            }
        }
        let out = self.fresh(0);
        Step { task: 0, op: Op::DocRoot { doc: 0, out } }
    }
}
