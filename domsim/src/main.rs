//! domsim — deterministic simulation of caller tasks over shared xml-rs documents.
//!
//!   domsim run    --prop C12 --seed 1 --from 0 --count 1000 --out DIR [--findings FILE] [--trace]
//!   domsim replay FILE
//!   domsim shrink FILE OUT
//!   domsim show   --prop C12 --seed 1 --run 17        (print the generated history)

mod cli;
mod gen;
mod history;
mod known;
mod model;
mod obs;
mod oracle;
mod real;
mod rng;
mod shrink;
mod step;
mod world;
mod xmlchars;

use history::*;
use std::collections::{BTreeMap, BTreeSet};
use std::io::Write;

fn arg(args: &[String], name: &str) -> Option<String> {
    args.iter().position(|a| a == name).and_then(|i| args.get(i + 1)).cloned()
}

fn flag(args: &[String], name: &str) -> bool {
    args.iter().any(|a| a == name)
}

#[derive(Default)]
pub struct Stats {
    pub runs: u64,
    pub steps: u64,
    pub skipped: u64,
    pub setup_errors: u64,
    pub ops: BTreeMap<String, u64>,
    pub outcomes: BTreeMap<String, u64>,
    pub faults: BTreeMap<String, u64>,
    pub probes: BTreeMap<String, u64>,
    pub cut_short_other: u64,
    pub cut_short_props: BTreeMap<String, u64>,
    pub unclaimed_panics: u64,
    pub violations: u64,
    pub known: BTreeMap<String, u64>,
    pub skipped_for: BTreeMap<String, u64>,
    pub state_digests: BTreeSet<u64>,
    pub history_digests: BTreeSet<u64>,
    pub nontrivial_digests: BTreeSet<u64>,
    pub interleavings: BTreeSet<u64>,
    pub samples: Vec<String>,
    pub draws: u64,
}

fn bump(m: &mut BTreeMap<String, u64>, k: &str) {
    *m.entry(k.to_string()).or_insert(0) += 1;
}

pub fn jstr(s: &str) -> String {
    let mut o = String::from("\"");
    for c in s.chars() {
        match c {
            '"' => o.push_str("\\\""),
            '\\' => o.push_str("\\\\"),
            '\n' => o.push_str("\\n"),
            '\r' => o.push_str("\\r"),
            '\t' => o.push_str("\\t"),
            c if (c as u32) < 0x20 => o.push_str(&format!("\\u{:04x}", c as u32)),
            c => o.push(c),
        }
    }
    o.push('"');
    o
}

fn jmap(m: &BTreeMap<String, u64>) -> String {
    let parts: Vec<String> = m.iter().map(|(k, v)| format!("{}:{}", jstr(k), v)).collect();
    format!("{{{}}}", parts.join(","))
}

impl Stats {
    fn to_json(&self, digests_file: Option<&str>) -> String {
        if let Some(f) = digests_file {
            if let Ok(mut fh) = std::fs::File::create(f) {
                for d in &self.nontrivial_digests {
                    let _ = writeln!(fh, "n {:016x}", d);
                }
                for d in &self.history_digests {
                    let _ = writeln!(fh, "h {:016x}", d);
                }
                for d in &self.interleavings {
                    let _ = writeln!(fh, "i {:016x}", d);
                }
                for d in self.state_digests.iter().take(400000) {
                    let _ = writeln!(fh, "s {:016x}", d);
                }
            }
        }
        let samples: Vec<String> = self.samples.iter().map(|s| jstr(s)).collect();
        format!(
            "{{\"runs\":{},\"steps\":{},\"skipped_steps\":{},\"setup_errors\":{},\"ops\":{},\"outcomes\":{},\"faults\":{},\"probes\":{},\"cut_short_other\":{},\"cut_short_props\":{},\"unclaimed_panics\":{},\"violations\":{},\"known\":{},\"skipped_for\":{},\"distinct_states\":{},\"distinct_histories\":{},\"distinct_nontrivial\":{},\"distinct_interleavings\":{},\"prng_draws\":{},\"samples\":[{}]}}",
            self.runs,
            self.steps,
            self.skipped,
            self.setup_errors,
            jmap(&self.ops),
            jmap(&self.outcomes),
            jmap(&self.faults),
            jmap(&self.probes),
            self.cut_short_other,
            jmap(&self.cut_short_props),
            self.unclaimed_panics,
            self.violations,
            jmap(&self.known),
            jmap(&self.skipped_for),
            self.state_digests.len(),
            self.history_digests.len(),
            self.nontrivial_digests.len(),
            self.interleavings.len(),
            self.draws,
            samples.join(",")
        )
    }
}

/// Generate and execute one run.  Returns the resolved history and its result.
fn one_run(prop: &str, seed: u64, run: u64, findings: &known::Findings, stats: &mut Stats, trace: bool, trace_file: Option<&str>) -> (History, RunResult) {
    let mut rng = rng::Rng::new(rng::mix(seed, run));
    let profile = gen::Profile::draw(prop, &mut rng);
    let docs = gen::gen_docs(&mut rng, &profile);
    let diff_pool = gen::diff_query_pool(&mut rng);
    let diff_ns = vec![("p".to_string(), "urn:p".to_string()), ("q".to_string(), "urn:q".to_string())];
    let diff_each = prop == "C14" && rng.pct(50);
    let mut h = History {
        prop: prop.to_string(),
        seed,
        run,
        docs: docs.clone(),
        diff_pool,
        diff_ns,
        diff_each,
        gates: findings.active.iter().filter(|a| world::GATED_CLAUSES.contains(&a.as_str())).cloned().collect(),
        steps: vec![],
        expect: None,
    };
    let mut res = RunResult::default();
    let mut w = match world::World::setup(&docs, h.cfg()) {
        Ok(w) => w,
        Err(e) => {
            res.setup_error = Some(e);
            return (h, res);
        }
    };
    if !w.initial_fails.is_empty() {
        res.failed_at = Some(0);
        res.fails = w.initial_fails.clone();
        return (h, res);
    }
    let max_steps = profile.max_steps;
    let mut g = gen::Gen::new(rng, profile);
    let mut hist_digest: u64 = rng::fnv(b"h");
    let mut inter_digest: u64 = rng::fnv(b"i");
    let mut successes = 0;
    let mut faults_fired = 0;
    let mut i = 0;
    let mut attempts = 0;
    while i < max_steps && attempts < max_steps * 4 {
        attempts += 1;
        let st = g.next_step(&w);
        // known findings: recognised on the model *before* execution; the step is not executed
        if let Some(name) = findings.trigger(&w, &st) {
            bump(&mut stats.skipped_for, name);
            continue;
        }
        if trace {
            eprintln!("run {} step {} {}", run, i, st.to_line());
        }
        if let Some(tf) = trace_file {
            // written *before* the call, so that an abort (stack overflow, hang) is attributable to this step
            let mut t = h.clone();
            t.steps.push(st.clone());
            t.expect = Some((i, prop.to_string(), "process-crash".to_string(), "the process did not survive this step".to_string()));
            let _ = std::fs::write(tf, t.to_text());
        }
        let rep = w.exec_step(&st);
        if !rep.executed {
            stats.skipped += 1;
            continue;
        }
        h.steps.push(st.clone());
        stats.steps += 1;
        bump(&mut stats.ops, st.op_name());
        bump(&mut stats.outcomes, &rep.outcome);
        for p in &rep.probes {
            bump(&mut stats.probes, p);
        }
        if rep.illegal {
            bump(&mut stats.faults, "F1_illegal_call_executed");
            faults_fired += 1;
        }
        if rep.failed_call {
            bump(&mut stats.faults, "failed_calls");
        }
        if rep.success_mutation {
            successes += 1;
        }
        stats.state_digests.insert(rep.digest);
        hist_digest = rng::fnv_add(hist_digest, st.op_name().as_bytes());
        hist_digest = rng::fnv_add(hist_digest, rep.outcome.as_bytes());
        hist_digest = rng::fnv_add(hist_digest, &rep.digest.to_le_bytes());
        inter_digest = rng::fnv_add(inter_digest, &[st.task as u8]);
        let stop = !rep.fails.is_empty();
        let up = rep.unclaimed_panic.clone();
        if stop {
            res.failed_at = Some(i);
            res.fails = rep.fails.clone();
        }
        res.reports.push(rep);
        i += 1;
        if stop {
            break;
        }
        if let Some(p) = up {
            res.unclaimed_panic = Some((i - 1, p));
            break;
        }
    }
    for (k, v) in &g.faults {
        *stats.faults.entry(k.to_string()).or_insert(0) += *v as u64;
        if k.starts_with("F2") || k.starts_with("F3") {
            faults_fired += *v;
        }
    }
    stats.draws += g.rng.draws;
    stats.history_digests.insert(hist_digest);
    stats.interleavings.insert(inter_digest);
    if successes >= 2 && faults_fired >= 1 {
        stats.nontrivial_digests.insert(hist_digest);
    }
    (h, res)
}

fn cmd_run(args: &[String]) -> i32 {
    let prop = arg(args, "--prop").unwrap_or("C12".into());
    let seed: u64 = arg(args, "--seed").and_then(|v| v.parse().ok()).unwrap_or(1);
    let from: u64 = arg(args, "--from").and_then(|v| v.parse().ok()).unwrap_or(0);
    let count: u64 = arg(args, "--count").and_then(|v| v.parse().ok()).unwrap_or(100);
    let out = arg(args, "--out").unwrap_or("/tmp/domsim-out".into());
    let tag = arg(args, "--tag").unwrap_or("w0".into());
    let max_viol: u64 = arg(args, "--max-violations").and_then(|v| v.parse().ok()).unwrap_or(5);
    let trace = flag(args, "--trace");
    let trace_file = arg(args, "--trace-file");
    let log = flag(args, "--log");
    let report_all = flag(args, "--report-all");
    let findings = match arg(args, "--findings") {
        Some(f) => known::Findings::load(&f),
        None => known::Findings::default(),
    };
    let _ = std::fs::create_dir_all(&out);
    let mut stats = Stats::default();
    let mut logf = if log { std::fs::File::create(format!("{}/{}.log", out, tag)).ok() } else { None };
    let progress = format!("{}/{}.progress", out, tag);
    let mut viol_files: Vec<String> = vec![];
    for run in from..from + count {
        let _ = std::fs::write(&progress, format!("{}\n", run));
        let (mut h, res) = one_run(&prop, seed, run, &findings, &mut stats, trace, trace_file.as_deref());
        stats.runs += 1;
        if let Some(f) = logf.as_mut() {
            let _ = writeln!(f, "run {} docs {:?}", run, h.docs);
            for (i, st) in h.steps.iter().enumerate() {
                if let Some(r) = res.reports.get(i) {
                    let _ = writeln!(f, "  {} -> {} {:016x}", st.to_line(), r.outcome, r.digest);
                }
            }
        }
        if stats.samples.len() < 2 && h.steps.len() >= 4 && res.failed_at.is_none() && res.setup_error.is_none() {
            let mut s = format!("docs={:?};", h.docs.iter().map(|d| d.0.clone()).collect::<Vec<_>>());
            for (i, st) in h.steps.iter().enumerate().take(30) {
                s.push_str(&format!(" {}=>{};", st.to_line().replacen("step ", "", 1), res.reports[i].outcome));
            }
            stats.samples.push(s);
        }
        if let Some(e) = &res.setup_error {
            stats.setup_errors += 1;
            if stats.setup_errors <= 3 {
                eprintln!("SETUP-ERROR run {}: {} docs {:?}", run, e, h.docs);
            }
            continue;
        }
        if res.unclaimed_panic.is_some() {
            stats.unclaimed_panics += 1;
        }
        if let Some(at) = res.failed_at {
            let mine: Vec<&obs::Fail> = res.fails.iter().filter(|f| f.prop == prop || report_all).collect();
            if mine.is_empty() {
                stats.cut_short_other += 1;
                for f in &res.fails {
                    bump(&mut stats.cut_short_props, &format!("{}/{}", f.prop, f.clause));
                }
                continue;
            }
            let f = mine[0].clone();
            stats.violations += 1;
            if (viol_files.len() as u64) < max_viol {
                h.expect = Some((at, f.prop.to_string(), f.clause.to_string(), f.detail.clone()));
                let path = format!("{}/{}-{}-{}.replay", out, prop, seed, run);
                let _ = std::fs::write(&path, h.to_text());
                println!("FOUND property={} clause={} run={} step={} replay={} detail={}", prop, f.clause, run, at, path, f.detail);
                viol_files.push(path);
            }
        }
    }
    let _ = std::fs::remove_file(&progress);
    let js = stats.to_json(Some(&format!("{}/{}.digests", out, tag)));
    let _ = std::fs::write(format!("{}/{}.stats.json", out, tag), &js);
    if stats.violations > 0 {
        1
    } else {
        0
    }
}

fn cmd_replay(args: &[String]) -> i32 {
    let file = match args.get(0) {
        Some(f) => f.clone(),
        None => {
            eprintln!("usage: domsim replay FILE");
            return 2;
        }
    };
    let text = match std::fs::read_to_string(&file) {
        Ok(t) => t,
        Err(e) => {
            eprintln!("cannot read {}: {}", file, e);
            return 2;
        }
    };
    let h = match History::from_text(&text) {
        Ok(h) => h,
        Err(e) => {
            eprintln!("cannot parse {}: {}", file, e);
            return 2;
        }
    };
    let verbose = flag(args, "--verbose");
    let findings = arg(args, "--findings").map(|f| known::Findings::load(&f));
    let res = h.execute_with(findings.as_ref());
    if let Some(e) = &res.setup_error {
        println!("REPLAY setup-error {}", e);
        return 2;
    }
    if verbose {
        for (i, r) in res.reports.iter().enumerate() {
            println!("  [{}] {} -> {} {:016x}", i, h.steps[i].to_line(), r.outcome, r.digest);
        }
    }
    match (&h.expect, res.failed_at) {
        (Some((_, prop, clause, _)), Some(at)) => {
            let hit = res.fails.iter().find(|f| f.prop == prop && f.clause == clause);
            match hit {
                Some(f) => {
                    println!("REPRODUCED property={} clause={} step={} detail={}", f.prop, f.clause, at, f.detail);
                    println!("VIOLATION property={} replay={}", f.prop, file);
                    1
                }
                None => {
                    println!("DIFFERENT failure at step {}: {:?}", at, res.fails);
                    3
                }
            }
        }
        (Some(_), None) => {
            println!("NOT-REPRODUCED: history executes without any clause failing");
            0
        }
        (None, Some(at)) => {
            for f in &res.fails {
                println!("FAIL property={} clause={} step={} detail={}", f.prop, f.clause, at, f.detail);
            }
            1
        }
        (None, None) => {
            println!("CLEAN");
            0
        }
    }
}

fn cmd_shrink(args: &[String]) -> i32 {
    let (file, out) = match (args.get(0), args.get(1)) {
        (Some(a), Some(b)) => (a.clone(), b.clone()),
        _ => {
            eprintln!("usage: domsim shrink FILE OUT");
            return 2;
        }
    };
    let text = match std::fs::read_to_string(&file) {
        Ok(t) => t,
        Err(e) => {
            eprintln!("cannot read {}: {}", file, e);
            return 2;
        }
    };
    let h = match History::from_text(&text) {
        Ok(h) => h,
        Err(e) => {
            eprintln!("cannot parse {}: {}", file, e);
            return 2;
        }
    };
    let budget: usize = arg(args, "--budget").and_then(|v| v.parse().ok()).unwrap_or(2000);
    match shrink::shrink(&h, budget) {
        Some((small, execs)) => {
            let _ = std::fs::write(&out, small.to_text());
            println!("SHRUNK steps {} -> {} docs {} -> {} bytes in {} executions", h.steps.len(), small.steps.len(), h.docs.iter().map(|d| d.0.len()).sum::<usize>(), small.docs.iter().map(|d| d.0.len()).sum::<usize>(), execs);
            0
        }
        None => {
            eprintln!("the input history does not reproduce its expected clause");
            3
        }
    }
}

fn cmd_show(args: &[String]) -> i32 {
    let prop = arg(args, "--prop").unwrap_or("C12".into());
    let seed: u64 = arg(args, "--seed").and_then(|v| v.parse().ok()).unwrap_or(1);
    let run: u64 = arg(args, "--run").and_then(|v| v.parse().ok()).unwrap_or(0);
    let findings = match arg(args, "--findings") {
        Some(f) => known::Findings::load(&f),
        None => known::Findings::default(),
    };
    let mut stats = Stats::default();
    let (h, res) = one_run(&prop, seed, run, &findings, &mut stats, false, None);
    print!("{}", h.to_text());
    for (i, r) in res.reports.iter().enumerate() {
        println!("# [{}] {} {:016x} {:?}", i, r.outcome, r.digest, r.fails);
    }
    if let Some(e) = res.setup_error {
        println!("# setup error: {}", e);
    }
    0
}

fn main() {
    real::install_panic_hook();
    let args: Vec<String> = std::env::args().collect();
    let code = match args.get(1).map(|s| s.as_str()) {
        Some("run") => cmd_run(&args[2..]),
        Some("replay") => cmd_replay(&args[2..]),
        Some("shrink") => cmd_shrink(&args[2..]),
        Some("show") => cmd_show(&args[2..]),
        Some("gen-cli") => {
            let a = &args[2..];
            let seed: u64 = arg(a, "--seed").and_then(|v| v.parse().ok()).unwrap_or(1);
            let from: u64 = arg(a, "--from").and_then(|v| v.parse().ok()).unwrap_or(0);
            let count: u64 = arg(a, "--count").and_then(|v| v.parse().ok()).unwrap_or(10);
            cli::cmd_gen(seed, from, count);
            0
        }
        Some("canon-batch") => {
            cli::cmd_canon_batch();
            0
        }
        _ => {
            eprintln!("usage: domsim run|replay|shrink|show ...");
            2
        }
    };
    std::process::exit(code);
}
