//! Resolved histories: what a run did, independent of the PRNG.  Replay files are histories.

use crate::obs::Fail;
use crate::step::*;
use crate::world::{Cfg, StepReport, World};

#[derive(Clone, Debug)]
pub struct History {
    pub prop: String,
    pub seed: u64,
    pub run: u64,
    pub docs: Vec<(String, bool)>,
    pub diff_pool: Vec<String>,
    pub diff_ns: Vec<(String, String)>,
    pub diff_each: bool,
    /// clauses of listed state-based findings that were not judged in the run (world::Cfg::gates);
    /// kept in the replay file so that a replay judges exactly what the run judged
    pub gates: Vec<String>,
    pub steps: Vec<Step>,
    /// (step index, clause, detail) recorded when the violation was found
    pub expect: Option<(usize, String, String, String)>,
}

#[derive(Clone, Debug, Default)]
pub struct RunResult {
    pub setup_error: Option<String>,
    /// index of the step at which some clause failed, with all failed clauses of that step
    pub failed_at: Option<usize>,
    pub fails: Vec<Fail>,
    pub reports: Vec<StepReport>,
    pub unclaimed_panic: Option<(usize, String)>,
}

impl History {
    pub fn cfg(&self) -> Cfg {
        Cfg { limit: 2000, c15_each: true, c14_diff_each: self.diff_each, diff_pool: self.diff_pool.clone(), diff_ns: self.diff_ns.clone(), gates: self.gates.clone() }
    }

    /// Execute the history from scratch against the real library.
    pub fn execute(&self) -> RunResult {
        self.execute_with(None)
    }

    /// The same; a step that lies in the region of a listed (step-based) known finding is not executed,
    /// as in an exploration run.  Histories recorded before a finding was listed may contain such steps.
    pub fn execute_with(&self, findings: Option<&crate::known::Findings>) -> RunResult {
        let mut res = RunResult::default();
        let mut w = match World::setup(&self.docs, self.cfg()) {
            Ok(w) => w,
            Err(e) => {
                res.setup_error = Some(e);
                return res;
            }
        };
        if !w.initial_fails.is_empty() {
            res.failed_at = Some(0);
            res.fails = w.initial_fails.clone();
            return res;
        }
        for (i, st) in self.steps.iter().enumerate() {
            if let Some(f) = findings {
                if f.trigger(&w, st).is_some() {
                    let mut rep = StepReport::default();
                    rep.outcome = "skipped (region of a listed finding)".into();
                    res.reports.push(rep);
                    continue;
                }
            }
            let rep = w.exec_step(st);
            let stop = !rep.fails.is_empty();
            let up = rep.unclaimed_panic.clone();
            if stop {
                res.failed_at = Some(i);
                res.fails = rep.fails.clone();
            }
            res.reports.push(rep);
            if stop {
                break;
            }
            if let Some(p) = up {
                res.unclaimed_panic = Some((i, p));
                break;
            }
        }
        res
    }

    pub fn to_text(&self) -> String {
        let mut s = String::new();
        s.push_str("domsim-replay 1\n");
        s.push_str(&format!("property {}\n", self.prop));
        s.push_str(&format!("seed {} run {}\n", self.seed, self.run));
        for (i, (t, e)) in self.docs.iter().enumerate() {
            s.push_str(&format!("doc {} expanded={} {}\n", i, if *e { 1 } else { 0 }, enc(t)));
        }
        s.push_str(&format!("diff_each {}\n", if self.diff_each { 1 } else { 0 }));
        for (p, u) in &self.diff_ns {
            s.push_str(&format!("diff_ns {} {}\n", enc(p), enc(u)));
        }
        for q in &self.diff_pool {
            s.push_str(&format!("pool {}\n", enc(q)));
        }
        for g in &self.gates {
            s.push_str(&format!("not_judged {}\n", g));
        }
        for st in &self.steps {
            s.push_str(&st.to_line());
            s.push('\n');
        }
        if let Some((i, prop, clause, detail)) = &self.expect {
            s.push_str(&format!("expect step={} property={} clause={} detail={}\n", i, prop, clause, enc(detail)));
        }
        s
    }

    pub fn from_text(text: &str) -> Result<History, String> {
        let mut h = History {
            prop: String::new(),
            seed: 0,
            run: 0,
            docs: vec![],
            diff_pool: vec![],
            diff_ns: vec![],
            diff_each: false,
            gates: vec![],
            steps: vec![],
            expect: None,
        };
        let mut lines = text.lines();
        match lines.next() {
            Some(l) if l.starts_with("domsim-replay") => {}
            _ => return Err("not a domsim replay file".into()),
        }
        for l in lines {
            let l = l.trim_end();
            if l.is_empty() || l.starts_with('#') {
                continue;
            }
            let mut it = l.split_whitespace();
            match it.next() {
                Some("property") => h.prop = it.next().unwrap_or("").to_string(),
                Some("seed") => {
                    h.seed = it.next().and_then(|v| v.parse().ok()).unwrap_or(0);
                    it.next();
                    h.run = it.next().and_then(|v| v.parse().ok()).unwrap_or(0);
                }
                Some("doc") => {
                    it.next();
                    let e = it.next().map(|v| v == "expanded=1").unwrap_or(false);
                    let t = dec(it.next().unwrap_or("%")).ok_or("bad doc encoding")?;
                    h.docs.push((t, e));
                }
                Some("diff_each") => h.diff_each = it.next() == Some("1"),
                Some("diff_ns") => {
                    let p = dec(it.next().unwrap_or("%")).ok_or("bad ns")?;
                    let u = dec(it.next().unwrap_or("%")).ok_or("bad ns")?;
                    h.diff_ns.push((p, u));
                }
                Some("not_judged") => h.gates.push(it.next().unwrap_or("").to_string()),
                Some("pool") => h.diff_pool.push(dec(it.next().unwrap_or("%")).ok_or("bad pool")?),
                Some("step") => match Step::from_line(l) {
                    Some(s) => h.steps.push(s),
                    None => return Err(format!("bad step line: {}", l)),
                },
                Some("expect") => {
                    let mut idx = 0usize;
                    let mut prop = String::new();
                    let mut clause = String::new();
                    let mut detail = String::new();
                    for tok in it {
                        if let Some((k, v)) = tok.split_once('=') {
                            match k {
                                "step" => idx = v.parse().unwrap_or(0),
                                "property" => prop = v.to_string(),
                                "clause" => clause = v.to_string(),
                                "detail" => detail = dec(v).unwrap_or_default(),
                                _ => {}
                            }
                        }
                    }
                    h.expect = Some((idx, prop, clause, detail));
                }
                _ => return Err(format!("unknown line: {}", l)),
            }
        }
        Ok(h)
    }
}
