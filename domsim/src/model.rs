//! Reference model: an arena tree with DOM Level 1 Core semantics, written from the
//! specification text.  It knows nothing about id maps, order vectors or caches.

use crate::obs::*;
use crate::step::*;
use crate::xmlchars::*;
use std::collections::{BTreeMap, BTreeSet};

pub type Mid = usize;

#[derive(Clone, Copy, Debug, PartialEq, Eq)]
pub enum Kind {
    Document,
    Element,
    Attr,
    Text,
    CData,
    Comment,
    PI,
    CharRef,
    EntRef,
    DocType,
    Fragment,
}

impl Kind {
    pub fn okind(&self) -> OKind {
        match self {
            Kind::Document => OKind::Document,
            Kind::Element => OKind::Element,
            Kind::Attr => OKind::Attr,
            Kind::Text => OKind::Text,
            Kind::CData => OKind::CData,
            Kind::Comment => OKind::Comment,
            Kind::PI => OKind::PI,
            Kind::CharRef | Kind::EntRef => OKind::EntRef,
            Kind::DocType => OKind::DocType,
            Kind::Fragment => OKind::Fragment,
        }
    }
    pub fn is_chardata(&self) -> bool {
        matches!(self, Kind::Text | Kind::CData | Kind::Comment)
    }
    pub fn is_textlike(&self) -> bool {
        matches!(self, Kind::Text | Kind::CData | Kind::CharRef | Kind::EntRef)
    }
}

#[derive(Clone, Debug)]
pub struct MNode {
    pub kind: Kind,
    /// Element/Attr: qualified name; PI: target; EntRef: entity name; CharRef: spelling (`&#38;`); DocType: name
    pub name: String,
    /// Text/CData/Comment/PI: data; CharRef: the character; EntRef: replacement value
    pub data: String,
    pub children: Vec<Mid>,
    pub attrs: Vec<Mid>,
    /// namespace declarations written on the element (rendering only)
    pub nsdecls: Vec<(String, String)>,
    pub parent: Option<Mid>,
    /// Attr: the element that owns it
    pub owner_el: Option<Mid>,
    pub doc: usize,
    /// implementation id once bound
    pub rid: Option<usize>,
    pub dead: bool,
    /// value was adopted from the implementation (not judged)
    pub value_free: bool,
    /// EntRef whose entity is undeclared in its document
    pub undeclared: bool,
    /// Element: namespace prefix as written
    pub prefix: Option<String>,
    /// Attr created with the name `xmlns` / `xmlns:…`: a namespace declaration, which the library keeps
    /// apart from `attributes()`; once attached it is no longer tracked
    pub nsdecl: bool,
}

#[derive(Clone, Debug)]
pub struct MDoc {
    pub root: Mid,
    pub entities: Vec<(String, String)>,
    pub expanded: bool,
    pub xml_decl: Option<String>,
    pub twin_of: Option<usize>,
    /// DTD attribute defaults: (element name as declared, attribute name, value)
    pub defaults: Vec<(String, String, String)>,
}

#[derive(Clone, Debug, PartialEq)]
pub enum MSlot {
    Node(Mid),
    /// snapshot of nodes (iterator, query result); the flags say which handles are merged text nodes
    Vec(Vec<Mid>, Vec<bool>),
    List(Mid),
    Map(Mid),
    /// live get_elements_by_tag_name list: (node it was taken from, tag name)
    TagList(Mid, String),
    Ctx(Vec<(String, String)>),
    /// a merged text node of the text-expanded view: the pieces it stood for when the handle was taken
    Run(Vec<Mid>),
    /// a node the model does not track (defaulted attribute, namespace node)
    Opaque,
}

#[derive(Clone, Copy, Debug, PartialEq, Eq, PartialOrd, Ord)]
pub enum ErrClass {
    IndexSize,
    DomStringSize,
    Hierarchy,
    WrongDoc,
    InvalidChar,
    NoDataAllowed,
    NoModAllowed,
    NotFound,
    NotSupported,
    InUse,
    /// an error value that is not a DomException
    Other,
}

#[derive(Clone, Debug, Default)]
pub struct Plan {
    /// success is an admissible outcome
    pub ok: bool,
    /// admissible exception classes
    pub errs: Vec<ErrClass>,
    /// any error value is admissible (refusal permitted by C15 / DOM L1 silent)
    pub any_err: bool,
    /// on success the structural effect is adopted from the implementation for these nodes
    pub adopt: Vec<Mid>,
    /// on success nothing is expected to change
    pub no_effect: bool,
    /// the step cannot be executed (undefined slots) — skipped
    pub skip: bool,
    /// illegal by construction (fault F1 fired)
    pub illegal: bool,
    pub note: &'static str,
}

impl Plan {
    pub fn skip() -> Plan {
        Plan { skip: true, ..Default::default() }
    }
    pub fn ok() -> Plan {
        Plan { ok: true, ..Default::default() }
    }
    pub fn fail(errs: Vec<ErrClass>) -> Plan {
        Plan { ok: false, errs, illegal: true, ..Default::default() }
    }
    pub fn either(errs: Vec<ErrClass>, note: &'static str) -> Plan {
        Plan { ok: true, errs, any_err: false, note, ..Default::default() }
    }
    pub fn lenient(note: &'static str) -> Plan {
        Plan { ok: true, any_err: true, note, ..Default::default() }
    }
    pub fn admits_err(&self, e: ErrClass) -> bool {
        self.any_err || self.errs.contains(&e)
    }
}

#[derive(Clone, Debug)]
pub struct Model {
    pub nodes: Vec<MNode>,
    pub docs: Vec<MDoc>,
    pub slots: Vec<Option<MSlot>>,
    pub by_key: BTreeMap<Key, Mid>,
    /// number of successful mutations so far; merged text handles are snapshots of their pieces and are
    /// only judged while nothing has changed since they were taken
    pub gen: u64,
    pub born: BTreeMap<S, u64>,
}

pub fn local_of(q: &str) -> &str {
    match q.rfind(':') {
        Some(i) if i + 1 < q.len() && i > 0 => &q[i + 1..],
        _ => q,
    }
}

pub fn chars_len(s: &str) -> usize {
    s.chars().count()
}

pub fn char_slice(s: &str, from: usize, to: usize) -> String {
    s.chars().skip(from).take(to.saturating_sub(from)).collect()
}

/// Can `data` be stored in a node of this kind so that it survives print→parse?
pub fn storable(kind: Kind, data: &str) -> bool {
    if !all_chars(data) {
        return false;
    }
    match kind {
        // (`]]>` is ordinary text data: the serialiser writes the `>` as a reference)
        Kind::Text => !data.contains('<') && !data.contains('&'),
        Kind::Comment => !data.contains("--") && !data.ends_with('-'),
        Kind::CData => !data.contains("]]>"),
        Kind::PI => !data.contains("?>"),
        _ => true,
    }
}

/// does the text contain a '>' that must be written as a reference in element content?
pub fn gt_needs_reference(data: &str) -> bool {
    let mut brackets = 0;
    let mut only_brackets = true;
    for c in data.chars() {
        if c == '>' && (brackets >= 2 || only_brackets) {
            return true;
        }
        if c == ']' {
            brackets += 1;
        } else {
            brackets = 0;
            only_brackets = false;
        }
    }
    false
}

/// Does the fragment contain a character that is markup-significant for this kind?
pub fn risky(kind: Kind, s: &str) -> bool {
    if !all_chars(s) {
        return true;
    }
    match kind {
        Kind::Text => s.contains(|c| "<&\r".contains(c)),
        Kind::Comment => s.contains('-') || s.contains('\r'),
        Kind::CData => s.contains(|c| "]>\r".contains(c)),
        Kind::PI => s.contains(|c| "?>\r".contains(c)) || s.starts_with(|c: char| c.is_whitespace()),
        Kind::Attr => s.contains(|c| "<&'\"\r".contains(c)),
        _ => false,
    }
}

fn allowed_child(parent: Kind, child: Kind) -> bool {
    match parent {
        Kind::Document => matches!(child, Kind::Element | Kind::PI | Kind::Comment | Kind::DocType),
        Kind::Element => matches!(
            child,
            Kind::Element | Kind::Text | Kind::CData | Kind::Comment | Kind::PI | Kind::CharRef | Kind::EntRef
        ),
        Kind::Attr => matches!(child, Kind::Text | Kind::CharRef | Kind::EntRef),
        _ => false,
    }
}

impl Model {
    pub fn new() -> Model {
        Model { nodes: vec![], docs: vec![], slots: vec![], by_key: BTreeMap::new(), gen: 0, born: BTreeMap::new() }
    }

    pub fn add(&mut self, kind: Kind, name: &str, data: &str, doc: usize) -> Mid {
        self.nodes.push(MNode {
            kind,
            name: name.to_string(),
            data: data.to_string(),
            children: vec![],
            attrs: vec![],
            nsdecls: vec![],
            parent: None,
            owner_el: None,
            doc,
            rid: None,
            dead: false,
            value_free: false,
            undeclared: false,
            prefix: None,
            nsdecl: false,
        });
        self.nodes.len() - 1
    }

    pub fn push_child(&mut self, parent: Mid, child: Mid) {
        self.nodes[child].parent = Some(parent);
        self.nodes[parent].children.push(child);
    }

    pub fn push_attr(&mut self, el: Mid, attr: Mid) {
        self.nodes[attr].owner_el = Some(el);
        self.nodes[el].attrs.push(attr);
    }

    pub fn bind(&mut self, mid: Mid, id: usize) {
        let doc = self.nodes[mid].doc;
        self.nodes[mid].rid = Some(id);
        self.by_key.insert(Key { doc, id }, mid);
    }

    pub fn key(&self, mid: Mid) -> Option<Key> {
        self.nodes[mid].rid.map(|id| Key { doc: self.nodes[mid].doc, id })
    }

    pub fn mid_of(&self, key: Key) -> Option<Mid> {
        self.by_key.get(&key).cloned().filter(|m| !self.nodes[*m].dead)
    }

    pub fn slot(&self, s: S) -> Option<&MSlot> {
        self.slots.get(s).and_then(|v| v.as_ref())
    }

    pub fn node_slot(&self, s: S) -> Option<Mid> {
        match self.slot(s) {
            Some(MSlot::Node(m)) => Some(*m),
            _ => None,
        }
    }

    /// the node an argument slot stands for as ref_child: a node, or the first piece of a merged run
    pub fn arg_head(&self, s: S) -> Option<Mid> {
        match self.slot(s) {
            Some(MSlot::Node(m)) => Some(*m),
            Some(MSlot::Run(r)) => r.first().cloned(),
            _ => None,
        }
    }

    fn is_run(&self, s: S) -> Option<Vec<Mid>> {
        match self.slot(s) {
            Some(MSlot::Run(r)) => Some(r.clone()),
            _ => None,
        }
    }

    /// a merged text handle taken before the last successful mutation: its snapshot may differ from the view
    pub fn stale(&self, s: S) -> bool {
        matches!(self.slot(s), Some(MSlot::Run(_))) && self.born.get(&s).cloned() != Some(self.gen)
    }

    fn step_slots(step: &Step) -> Vec<S> {
        match &step.op {
            Op::InsertBefore { recv, new, refc, .. } => {
                let mut v = vec![*recv, *new];
                if let Some(r) = refc {
                    v.push(*r);
                }
                v
            }
            Op::AppendChild { recv, new, .. } => vec![*recv, *new],
            Op::ReplaceChild { recv, new, old, .. } => vec![*recv, *new, *old],
            Op::RemoveChild { recv, old, .. } => vec![*recv, *old],
            Op::Substring { node, .. } | Op::Nav { node, .. } | Op::Touch { node } => vec![*node],
            Op::Normalize { el } => vec![*el],
            _ => vec![],
        }
    }

    /// a merged text node offered as new child: this DOM cannot move it (any refusal, no effect)
    fn plan_run_as_new() -> Plan {
        Plan { ok: false, errs: vec![ErrClass::NotSupported, ErrClass::Hierarchy, ErrClass::WrongDoc, ErrClass::NotFound], any_err: true, illegal: true, ..Default::default() }
    }

    /// remove_child / replace_child given a merged text node: all of its pieces must be children
    fn plan_run_as_old(&self, recv: Mid, run: &[Mid]) -> Plan {
        let r = &self.nodes[recv];
        let same_doc = run.iter().all(|p| self.nodes[*p].doc == r.doc);
        if r.kind == Kind::Element && same_doc && !run.is_empty() && run.iter().all(|p| self.nodes[*p].parent == Some(recv)) {
            Plan::ok()
        } else {
            Plan::fail(vec![ErrClass::NotFound, ErrClass::Hierarchy, ErrClass::WrongDoc])
        }
    }

    pub fn set_slot(&mut self, s: S, v: MSlot) {
        while self.slots.len() <= s {
            self.slots.push(None);
        }
        self.slots[s] = Some(v);
    }

    pub fn clear_slot(&mut self, s: S) {
        if s < self.slots.len() {
            self.slots[s] = None;
        }
    }

    pub fn next_free_slot(&self) -> S {
        self.slots.len()
    }

    pub fn entity_value(&self, doc: usize, name: &str) -> Option<String> {
        // declarations live in the DOCTYPE node: they are gone when it is no longer a child of the document
        let dt_attached = self.nodes[self.docs[doc].root].children.iter().any(|c| self.nodes[*c].kind == Kind::DocType);
        if let Some((_, v)) = self.docs[doc].entities.iter().find(|(n, _)| n == name).filter(|_| dt_attached) {
            return Some(v.clone());
        }
        match name {
            "lt" => Some("<".into()),
            "gt" => Some(">".into()),
            "amp" => Some("&".into()),
            "apos" => Some("'".into()),
            "quot" => Some("\"".into()),
            _ => None,
        }
    }

    // ------------------------------------------------------------------------------------------
    // tree helpers

    pub fn root_of(&self, mut m: Mid) -> Mid {
        let mut guard = 0;
        loop {
            let n = &self.nodes[m];
            let up = if n.kind == Kind::Attr { n.owner_el } else { n.parent };
            match up {
                Some(p) => m = p,
                None => return m,
            }
            guard += 1;
            if guard > 100000 {
                return m;
            }
        }
    }

    pub fn is_attached(&self, m: Mid) -> bool {
        self.nodes[self.root_of(m)].kind == Kind::Document
    }

    /// is `a` an ancestor of `n` (strict), following child→parent links only
    pub fn is_ancestor(&self, a: Mid, n: Mid) -> bool {
        let mut cur = self.nodes[n].parent;
        let mut guard = 0;
        while let Some(p) = cur {
            if p == a {
                return true;
            }
            cur = self.nodes[p].parent;
            guard += 1;
            if guard > 100000 {
                break;
            }
        }
        false
    }

    pub fn subtree_size(&self, m: Mid) -> usize {
        let mut n = 1 + self.nodes[m].attrs.len();
        for c in &self.nodes[m].children {
            n += self.subtree_size(*c);
        }
        n
    }

    pub fn has_descendants(&self, m: Mid) -> bool {
        !self.nodes[m].children.is_empty() || !self.nodes[m].attrs.is_empty()
    }

    fn detach(&mut self, m: Mid) {
        if let Some(p) = self.nodes[m].parent {
            self.nodes[p].children.retain(|c| *c != m);
            self.nodes[m].parent = None;
        }
    }

    fn detach_attr(&mut self, a: Mid) {
        if let Some(e) = self.nodes[a].owner_el {
            self.nodes[e].attrs.retain(|c| *c != a);
            self.nodes[a].owner_el = None;
        }
    }

    pub fn attr_value(&self, a: Mid) -> String {
        let mut s = String::new();
        for c in &self.nodes[a].children {
            let n = &self.nodes[*c];
            match n.kind {
                Kind::Text => s.push_str(&norm_attr_ws(&n.data)),
                Kind::CharRef => s.push_str(&n.data),
                Kind::EntRef => s.push_str(&norm_attr_ws(&n.data)),
                _ => {}
            }
        }
        s
    }

    pub fn find_attr(&self, el: Mid, local: &str) -> Option<Mid> {
        self.nodes[el].attrs.iter().cloned().find(|a| local_of(&self.nodes[*a].name) == local)
    }

    /// no empty text node and no two adjacent text nodes under an attached element: only then
    /// does a re-parse of the serialisation have the same nodes as the live document
    pub fn text_normal(&self, doc: usize) -> bool {
        let mut stack = vec![self.docs[doc].root];
        if self.docs[doc].expanded {
            // merged view: a run with no characters at all disappears on re-parse
            while let Some(m) = stack.pop() {
                for item in self.view(m) {
                    let k = &self.nodes[item[0]];
                    if k.kind.is_textlike() && self.merges(m) {
                        if self.run_data(&item).is_empty() {
                            return false;
                        }
                    } else if k.kind == Kind::Element {
                        stack.push(item[0]);
                    }
                }
            }
            return true;
        }
        while let Some(m) = stack.pop() {
            let n = &self.nodes[m];
            let mut prev_text = false;
            for c in &n.children {
                let k = &self.nodes[*c];
                if k.kind == Kind::Text {
                    // a '>' that could close a CDATA section (after `]]`, or with only `]` before it in this
                    // node) is serialised as a reference, i.e. re-parses as a separate node
                    if k.data.is_empty() || prev_text || gt_needs_reference(&k.data) {
                        return false;
                    }
                    prev_text = true;
                } else {
                    prev_text = false;
                    if k.kind == Kind::Element {
                        stack.push(*c);
                    }
                }
            }
        }
        true
    }

    pub fn has_document_element(&self, doc: usize) -> bool {
        self.nodes[self.docs[doc].root].children.iter().any(|c| self.nodes[*c].kind == Kind::Element)
    }

    /// attributes an element has only through the DTD (declared default, not specified on the element)
    pub fn default_attrs(&self, m: Mid) -> Vec<(String, String)> {
        let n = &self.nodes[m];
        if n.kind != Kind::Element {
            return vec![];
        }
        let d = &self.docs[n.doc];
        if d.defaults.is_empty() || !self.nodes[d.root].children.iter().any(|c| self.nodes[*c].kind == Kind::DocType) {
            return vec![];
        }
        let qname = match &n.prefix {
            Some(p) => format!("{}:{}", p, local_of(&n.name)),
            None => local_of(&n.name).to_string(),
        };
        let mut out: Vec<(String, String)> = vec![];
        for (el, att, val) in &d.defaults {
            if *el == qname && self.find_attr(m, att).is_none() && !out.iter().any(|(k, _)| k == att) {
                out.push((att.clone(), norm_attr_ws(val)));
            }
        }
        out.sort();
        out
    }

    /// alive, non-dead nodes
    pub fn alive(&self) -> Vec<Mid> {
        (0..self.nodes.len()).filter(|m| !self.nodes[*m].dead).collect()
    }

    /// nodes held (strongly) by live slots
    pub fn held(&self) -> BTreeSet<Mid> {
        let mut h = BTreeSet::new();
        for s in self.slots.iter().flatten() {
            match s {
                MSlot::Node(m) | MSlot::List(m) | MSlot::Map(m) | MSlot::TagList(m, _) => {
                    h.insert(*m);
                }
                // a merged text handle (Run) keeps its pieces alive in the implementation, but nothing
                // can be observed through it once the pieces are detached: it is not counted as a holder
                MSlot::Vec(v, merged) => {
                    for (i, m) in v.iter().enumerate() {
                        if !merged.get(i).cloned().unwrap_or(false) {
                            h.insert(*m);
                        }
                    }
                }
                _ => {}
            }
        }
        h
    }

    // ------------------------------------------------------------------------------------------
    // the text-expanded view: under an element, adjacent text / CDATA / reference items are one node

    pub fn merges(&self, m: Mid) -> bool {
        let n = &self.nodes[m];
        n.kind == Kind::Element && self.docs[n.doc].expanded
    }

    /// children as the DOM presents them: each item is a single node or a run of text-like pieces
    pub fn view(&self, m: Mid) -> Vec<Vec<Mid>> {
        let n = &self.nodes[m];
        if !self.merges(m) {
            return n.children.iter().map(|c| vec![*c]).collect();
        }
        let mut out: Vec<Vec<Mid>> = vec![];
        let mut run: Vec<Mid> = vec![];
        for c in &n.children {
            if self.nodes[*c].kind.is_textlike() {
                run.push(*c);
            } else {
                if !run.is_empty() {
                    out.push(std::mem::take(&mut run));
                }
                out.push(vec![*c]);
            }
        }
        if !run.is_empty() {
            out.push(run);
        }
        out
    }

    /// the node that stands for each child in the view (first piece of a run)
    pub fn view_heads(&self, m: Mid) -> Vec<Mid> {
        self.view(m).iter().map(|v| v[0]).collect()
    }

    /// the run a text-like node belongs to in the view of its parent (None if the parent does not merge)
    pub fn run_of(&self, m: Mid) -> Option<Vec<Mid>> {
        let n = &self.nodes[m];
        let p = n.parent?;
        if !self.merges(p) || !n.kind.is_textlike() {
            return None;
        }
        self.view(p).into_iter().find(|r| r.contains(&m))
    }

    pub fn run_data(&self, run: &[Mid]) -> String {
        run.iter().map(|m| self.nodes[*m].data.clone()).collect::<Vec<_>>().join("")
    }

    /// is this handle (taken earlier) still exactly one run of its parent's view?
    pub fn run_intact(&self, run: &[Mid]) -> bool {
        match run.first().and_then(|h| self.run_of(*h)) {
            Some(r) => r == run,
            None => false,
        }
    }

    /// Rust ownership: a detached node lives only while a handle holds it or one of its ancestors.
    /// Returns the number of nodes that died.
    pub fn gc(&mut self) -> usize {
        let held = self.held();
        let mut died = 0;
        let mut work: Vec<Mid> = (0..self.nodes.len())
            .filter(|m| {
                let n = &self.nodes[*m];
                !n.dead && n.kind != Kind::Document && n.parent.is_none() && n.owner_el.is_none()
            })
            .collect();
        while let Some(r) = work.pop() {
            if self.nodes[r].dead || held.contains(&r) {
                continue;
            }
            if self.nodes[r].parent.is_some() || self.nodes[r].owner_el.is_some() {
                continue;
            }
            self.nodes[r].dead = true;
            died += 1;
            let kids: Vec<Mid> = self.nodes[r].children.drain(..).collect();
            let attrs: Vec<Mid> = self.nodes[r].attrs.drain(..).collect();
            for c in kids {
                self.nodes[c].parent = None;
                work.push(c);
            }
            for a in attrs {
                self.nodes[a].owner_el = None;
                work.push(a);
            }
        }
        // slots never refer to dead nodes by construction (held ⇒ alive)
        died
    }

    // ------------------------------------------------------------------------------------------
    // expected observation

    pub fn node_value(&self, m: Mid) -> Option<String> {
        let n = &self.nodes[m];
        match n.kind {
            Kind::Text | Kind::CData | Kind::Comment | Kind::PI => Some(n.data.clone()),
            Kind::Attr => Some(self.attr_value(m)),
            _ => None,
        }
    }

    pub fn node_name(&self, m: Mid) -> String {
        let n = &self.nodes[m];
        match n.kind {
            Kind::Document => "#document".into(),
            Kind::Fragment => "#document-fragment".into(),
            Kind::Element | Kind::Attr => local_of(&n.name).to_string(),
            Kind::Text => "#text".into(),
            Kind::CData => "#cdata-section".into(),
            Kind::Comment => "#comment".into(),
            Kind::PI | Kind::DocType | Kind::EntRef | Kind::CharRef => n.name.clone(),
        }
    }

    pub fn expect_all(&self) -> ExpectMap {
        let mut out = ExpectMap::new();
        for m in self.alive() {
            let n = &self.nodes[m];
            if n.kind == Kind::Fragment {
                continue;
            }
            let key = match self.key(m) {
                Some(k) => k,
                None => continue,
            };
            let mut attrs: Vec<(String, String, Key)> = vec![];
            for a in &n.attrs {
                if let Some(k) = self.key(*a) {
                    attrs.push((self.node_name(*a), self.attr_value(*a), k));
                }
            }
            attrs.sort();
            let parent = if n.kind == Kind::Attr { None } else { n.parent.and_then(|p| self.key(p)) };
            // merged-text view: a run is presented as one text node carrying the id of its first piece
            if let Some(run) = self.run_of(m) {
                if run[0] != m {
                    continue;
                }
                let e = Expect {
                    key,
                    kind: OKind::Text,
                    name: "#text".into(),
                    value: Some(self.run_data(&run)),
                    parent,
                    children: vec![],
                    attrs: vec![],
                    defaults: vec![],
                    attached: self.is_attached(m),
                    value_free: run.iter().any(|r| self.nodes[*r].value_free || self.nodes[*r].undeclared),
                };
                out.insert(key, e);
                continue;
            }
            let e = Expect {
                key,
                kind: n.kind.okind(),
                name: self.node_name(m),
                value: self.node_value(m),
                parent,
                children: self.view_heads(m).iter().filter_map(|c| self.key(*c)).collect(),
                attrs,
                defaults: self.default_attrs(m),
                attached: self.is_attached(m),
                value_free: n.value_free || self.subtree_value_free(m),
            };
            out.insert(key, e);
        }
        out
    }

    fn subtree_value_free(&self, m: Mid) -> bool {
        let n = &self.nodes[m];
        if n.kind == Kind::Attr {
            n.children.iter().any(|c| self.nodes[*c].value_free || self.nodes[*c].undeclared)
        } else {
            false
        }
    }

    // ------------------------------------------------------------------------------------------
    // planning: the admissible outcomes of a step (Appendix A of DESIGN.md)

    fn plan_insert(&self, recv: Mid, new: Mid, refc: Option<Mid>) -> Plan {
        let r = &self.nodes[recv];
        let n = &self.nodes[new];
        let mut errs: Vec<ErrClass> = vec![];
        let leaf = !matches!(r.kind, Kind::Document | Kind::Element | Kind::Attr);
        if leaf {
            let mut e = vec![ErrClass::Hierarchy];
            if n.doc != r.doc {
                e.push(ErrClass::WrongDoc);
            }
            return Plan::fail(e);
        }
        if n.doc != r.doc || n.kind == Kind::Document {
            errs.push(ErrClass::WrongDoc);
        }
        if let Some(rc) = refc {
            let rcn = &self.nodes[rc];
            if rcn.doc != r.doc || rcn.kind == Kind::Document {
                errs.push(ErrClass::WrongDoc);
                errs.push(ErrClass::NotFound);
            } else if rcn.parent != Some(recv) || rcn.kind == Kind::Attr {
                errs.push(ErrClass::NotFound);
            }
        }
        if n.kind == Kind::Fragment {
            // DOM Level 1: the children of the fragment are inserted; a fragment of this DOM is always
            // empty (it has no mutators), so the call succeeds and changes nothing
            if !errs.is_empty() {
                errs.push(ErrClass::Hierarchy);
                errs.sort();
                errs.dedup();
                return Plan::fail(errs);
            }
            let mut p = Plan::ok();
            p.no_effect = true;
            return p;
        }
        if new == recv || self.is_ancestor(new, recv) {
            errs.push(ErrClass::Hierarchy);
        }
        if !allowed_child(r.kind, n.kind) {
            errs.push(ErrClass::Hierarchy);
        }
        if r.kind == Kind::Document {
            if n.kind == Kind::Element {
                let other = r.children.iter().any(|c| self.nodes[*c].kind == Kind::Element && *c != new);
                if other {
                    errs.push(ErrClass::Hierarchy);
                }
            }
            if n.kind == Kind::DocType {
                // DOM L1 is silent about moving the doctype; well-formedness wants it before the element
                if errs.is_empty() {
                    let mut p = Plan::either(vec![ErrClass::Hierarchy, ErrClass::NotFound], "doctype move");
                    p.adopt = vec![recv];
                    return p;
                }
            }
        }
        if !errs.is_empty() {
            errs.sort();
            errs.dedup();
            return Plan::fail(errs);
        }
        if r.kind == Kind::Document && n.kind == Kind::Element {
            // DOM L1 is silent; well-formedness wants the doctype before the document element
            if let (Some(rc), Some(dt)) = (refc, r.children.iter().position(|c| self.nodes[*c].kind == Kind::DocType)) {
                if r.children.iter().position(|c| *c == rc).map(|i| i <= dt).unwrap_or(false) {
                    let mut p = Plan::either(vec![ErrClass::Hierarchy], "document element before the doctype");
                    p.adopt = vec![recv];
                    return p;
                }
            }
        }
        if Some(new) == refc {
            let mut p = Plan::either(vec![ErrClass::Hierarchy, ErrClass::NotFound], "new == ref");
            p.adopt = vec![recv];
            return p;
        }
        Plan::ok()
    }

    fn plan_remove(&self, recv: Mid, old: Mid) -> Plan {
        let r = &self.nodes[recv];
        let o = &self.nodes[old];
        let leaf = !matches!(r.kind, Kind::Document | Kind::Element | Kind::Attr);
        if leaf {
            let mut e = vec![ErrClass::Hierarchy, ErrClass::NotFound];
            if o.doc != r.doc {
                e.push(ErrClass::WrongDoc);
            }
            return Plan::fail(e);
        }
        if o.doc != r.doc || o.kind == Kind::Document {
            return Plan::fail(vec![ErrClass::WrongDoc, ErrClass::NotFound]);
        }
        if o.parent != Some(recv) || o.kind == Kind::Attr {
            return Plan::fail(vec![ErrClass::NotFound]);
        }
        Plan::ok()
    }

    fn plan_replace(&self, recv: Mid, new: Mid, old: Mid) -> Plan {
        let r = &self.nodes[recv];
        let n = &self.nodes[new];
        let o = &self.nodes[old];
        let leaf = !matches!(r.kind, Kind::Document | Kind::Element | Kind::Attr);
        if leaf {
            let mut e = vec![ErrClass::Hierarchy, ErrClass::NotFound];
            if n.doc != r.doc || o.doc != r.doc {
                e.push(ErrClass::WrongDoc);
            }
            return Plan::fail(e);
        }
        let mut errs: Vec<ErrClass> = vec![];
        if n.doc != r.doc || n.kind == Kind::Document {
            errs.push(ErrClass::WrongDoc);
        }
        if o.doc != r.doc || o.kind == Kind::Document {
            errs.push(ErrClass::WrongDoc);
            errs.push(ErrClass::NotFound);
        } else if o.parent != Some(recv) || o.kind == Kind::Attr {
            errs.push(ErrClass::NotFound);
        }
        if n.kind == Kind::Fragment {
            // replace by an (always empty) fragment = removal of old, or any refusal
            let mut p = Plan::lenient("fragment as new child");
            p.adopt = vec![recv];
            return p;
        }
        if new == recv || self.is_ancestor(new, recv) {
            errs.push(ErrClass::Hierarchy);
        }
        if !allowed_child(r.kind, n.kind) {
            errs.push(ErrClass::Hierarchy);
        }
        let mut either_doc_el = false;
        if r.kind == Kind::Document {
            if n.kind == Kind::Element {
                let other: Vec<Mid> =
                    r.children.iter().cloned().filter(|c| self.nodes[*c].kind == Kind::Element && *c != new).collect();
                if !other.is_empty() {
                    if other == vec![old] {
                        either_doc_el = true;
                    } else {
                        errs.push(ErrClass::Hierarchy);
                    }
                }
            }
            if n.kind == Kind::DocType || o.kind == Kind::DocType {
                if errs.is_empty() {
                    let mut p = Plan::either(vec![ErrClass::Hierarchy, ErrClass::NotFound], "doctype move");
                    p.adopt = vec![recv];
                    return p;
                }
            }
        }
        if !errs.is_empty() {
            errs.sort();
            errs.dedup();
            return Plan::fail(errs);
        }
        if r.kind == Kind::Document && n.kind == Kind::Element {
            if let Some(dt) = r.children.iter().position(|c| self.nodes[*c].kind == Kind::DocType) {
                if r.children.iter().position(|c| *c == old).map(|i| i <= dt).unwrap_or(false) {
                    let mut p = Plan::either(vec![ErrClass::Hierarchy], "document element before the doctype");
                    p.adopt = vec![recv];
                    return p;
                }
            }
        }
        if new == old {
            let mut p = Plan::either(vec![ErrClass::Hierarchy, ErrClass::NotFound], "new == old");
            p.adopt = vec![recv];
            return p;
        }
        // the document element replaced by another element: one element before, one after (legal)
        let _ = either_doc_el;
        Plan::ok()
    }

    fn plan_attr_value(&self, value: &str) -> Plan {
        if !all_chars(value) {
            return Plan::lenient("non-Char in attribute value");
        }
        if value.contains('<') || value.contains('&') || (value.contains('\'') && value.contains('"')) {
            return Plan::lenient("attribute value with '<', '&' or both quote kinds");
        }
        Plan::ok()
    }

    fn plan_set_attr_node(&self, el: Mid, attr: Mid) -> Plan {
        let e = &self.nodes[el];
        let a = &self.nodes[attr];
        if e.kind != Kind::Element || a.kind != Kind::Attr {
            return Plan::skip();
        }
        if a.doc != e.doc {
            return Plan::fail(vec![ErrClass::WrongDoc]);
        }
        if a.nsdecl {
            // not an attribute for the library: whatever happens, the declaration is forgotten afterwards
            return Plan::lenient("namespace declaration attached as an attribute node");
        }
        match a.owner_el {
            Some(o) if o == el => {
                let mut p = Plan::either(vec![ErrClass::InUse], "attribute already on this element");
                p.no_effect = true;
                p
            }
            Some(_) => Plan::fail(vec![ErrClass::InUse]),
            None => Plan::ok(),
        }
    }

    pub fn plan(&self, step: &Step) -> Plan {
        // a stale merged-text handle as old child, one of whose pieces has left the receiver: whatever else is
        // true of the call, it must fail and (like every failed call) change nothing
        if let Op::ReplaceChild { recv, new, old, .. } = &step.op {
            if let (Some(MSlot::Run(r)), Some(rm), false) = (self.slot(*old), self.node_slot(*recv), self.stale(*recv) || self.stale(*new)) {
                let new_is_piece = self.node_slot(*new).map(|n| r.contains(&n)).unwrap_or(true);
                if self.stale(*old) && !new_is_piece && self.nodes[rm].kind == Kind::Element && !r.is_empty() && r.iter().any(|p| self.nodes[*p].parent != Some(rm)) {
                    let mut p = Plan::fail(vec![ErrClass::NotFound, ErrClass::Hierarchy, ErrClass::WrongDoc, ErrClass::NotSupported]);
                    p.illegal = true;
                    return p;
                }
            }
        }
        // the same for remove_child: a merged text node one of whose pieces has left the receiver is not a child
        if let Op::RemoveChild { recv, old, .. } = &step.op {
            if let (Some(MSlot::Run(r)), Some(rm), false) = (self.slot(*old), self.node_slot(*recv), self.stale(*recv)) {
                if self.stale(*old) && self.nodes[rm].kind == Kind::Element && !r.is_empty() && r.iter().any(|p| self.nodes[*p].parent != Some(rm)) {
                    let mut p = Plan::fail(vec![ErrClass::NotFound, ErrClass::Hierarchy, ErrClass::WrongDoc, ErrClass::NotSupported]);
                    p.illegal = true;
                    return p;
                }
            }
        }
        if Model::step_slots(step).iter().any(|s| self.stale(*s)) {
            return Plan::skip();
        }
        let p = self.plan_inner(step);
        // DOM-silent corners whose outcome is adopted from the child list: not modelled under the merged view
        if p.adopt.iter().any(|m| self.merges(*m)) && step.is_mutator() && !matches!(step.op, Op::SetAttribute { .. }) {
            return Plan::skip();
        }
        p
    }

    fn plan_inner(&self, step: &Step) -> Plan {
        let ns = |s: &S| self.node_slot(*s);
        match &step.op {
            Op::InsertBefore { recv, new, refc, .. } => {
                if self.is_run(*new).is_some() && ns(recv).is_some() {
                    return Model::plan_run_as_new();
                }
                let (r, n) = match (ns(recv), ns(new)) {
                    (Some(r), Some(n)) => (r, n),
                    _ => return Plan::skip(),
                };
                let rc = match refc {
                    Some(s) => match self.arg_head(*s) {
                        Some(m) => Some(m),
                        None => return Plan::skip(),
                    },
                    None => None,
                };
                self.plan_insert(r, n, rc)
            }
            Op::AppendChild { recv, new, .. } => {
                if self.is_run(*new).is_some() && ns(recv).is_some() {
                    return Model::plan_run_as_new();
                }
                match (ns(recv), ns(new)) {
                    (Some(r), Some(n)) => self.plan_insert(r, n, None),
                    _ => Plan::skip(),
                }
            }
            Op::ReplaceChild { recv, new, old, .. } => {
                if self.is_run(*new).is_some() && ns(recv).is_some() {
                    return Model::plan_run_as_new();
                }
                if let (Some(r), Some(n), Some(run)) = (ns(recv), ns(new), self.is_run(*old)) {
                    let p = self.plan_run_as_old(r, &run);
                    if !p.ok {
                        let mut q = self.plan_insert(r, n, None);
                        q.ok = false;
                        q.illegal = true;
                        q.errs.extend(p.errs);
                        q.adopt.clear();
                        return q;
                    }
                    let q = self.plan_insert(r, n, Some(run[0]));
                    if !q.adopt.is_empty() || q.no_effect {
                        // combinations with DOM-silent corners: not modelled
                        return Plan::skip();
                    }
                    return q;
                }
                match (ns(recv), ns(new), ns(old)) {
                    (Some(r), Some(n), Some(o)) => self.plan_replace(r, n, o),
                    _ => Plan::skip(),
                }
            }
            Op::RemoveChild { recv, old, .. } => {
                if let (Some(r), Some(run)) = (ns(recv), self.is_run(*old)) {
                    return self.plan_run_as_old(r, &run);
                }
                match (ns(recv), ns(old)) {
                    (Some(r), Some(o)) => self.plan_remove(r, o),
                    _ => Plan::skip(),
                }
            }
            Op::SetAttribute { el, name, value } => {
                let e = match ns(el) {
                    Some(e) if self.nodes[e].kind == Kind::Element => e,
                    _ => return Plan::skip(),
                };
                if !has_only_name_chars(name) {
                    let mut p = Plan::fail(vec![ErrClass::InvalidChar]);
                    p.any_err = self.plan_attr_value(value).any_err;
                    return p;
                }
                if !is_qname(name) || name.starts_with("xmlns") {
                    let mut p = Plan::lenient("name is a Name but not a usable QName");
                    p.adopt = vec![e];
                    if let Some(a) = self.find_attr(e, local_of(name)) {
                        p.adopt.push(a);
                    }
                    return p;
                }
                let mut p = self.plan_attr_value(value);
                p.adopt = vec![e];
                // an attribute of that name that is already there keeps its node and gets new value pieces
                // (their identity is adopted; the value itself is judged against the literal string)
                if let Some(a) = self.find_attr(e, local_of(name)) {
                    p.adopt.push(a);
                }
                p
            }
            Op::RemoveAttribute { el, .. } => match ns(el) {
                Some(e) if self.nodes[e].kind == Kind::Element => Plan::ok(),
                _ => Plan::skip(),
            },
            Op::SetAttributeNode { el, attr, .. } => match (ns(el), ns(attr)) {
                (Some(e), Some(a)) => self.plan_set_attr_node(e, a),
                _ => Plan::skip(),
            },
            Op::MapSetNamedItem { map, attr, .. } => match (self.slot(*map), ns(attr)) {
                (Some(MSlot::Map(e)), Some(a)) => self.plan_set_attr_node(*e, a),
                _ => Plan::skip(),
            },
            Op::RemoveAttributeNode { el, attr, .. } => match (ns(el), ns(attr)) {
                (Some(e), Some(a)) if self.nodes[e].kind == Kind::Element && self.nodes[a].kind == Kind::Attr => {
                    if self.nodes[a].owner_el == Some(e) {
                        Plan::ok()
                    } else if self.nodes[a].doc != self.nodes[e].doc {
                        Plan::fail(vec![ErrClass::NotFound, ErrClass::WrongDoc])
                    } else {
                        Plan::fail(vec![ErrClass::NotFound])
                    }
                }
                _ => Plan::skip(),
            },
            Op::MapRemoveNamedItem { map, name, .. } => match self.slot(*map) {
                Some(MSlot::Map(e)) => {
                    if self.find_attr(*e, name).is_some() {
                        Plan::ok()
                    } else if self.default_attrs(*e).iter().any(|(k, _)| k == name) {
                        // a defaulted attribute: "removed" and immediately there again
                        let mut p = Plan::either(vec![ErrClass::NotFound], "remove_named_item of a defaulted attribute");
                        p.no_effect = true;
                        p
                    } else {
                        Plan::fail(vec![ErrClass::NotFound])
                    }
                }
                _ => Plan::skip(),
            },
            Op::SetValue { node, value } => {
                let m = match ns(node) {
                    Some(m) => m,
                    None => return Plan::skip(),
                };
                match self.nodes[m].kind {
                    Kind::Document | Kind::Element => {
                        let mut p = Plan::either(vec![ErrClass::NoDataAllowed, ErrClass::NoModAllowed], "value of a node without value");
                        p.no_effect = true;
                        p
                    }
                    Kind::Attr => {
                        let mut p = self.plan_attr_value(value);
                        p.adopt = vec![m];
                        p
                    }
                    k @ (Kind::Text | Kind::CData | Kind::Comment | Kind::PI) => {
                        if storable(k, value) && !risky(k, value) {
                            Plan::ok()
                        } else {
                            Plan::lenient("markup-significant data")
                        }
                    }
                    _ => Plan::skip(),
                }
            }
            Op::CreateElement { name, .. } | Op::CreateAttr { name, .. } => {
                if !has_only_name_chars(name) {
                    Plan::fail(vec![ErrClass::InvalidChar])
                } else if !is_qname(name) || name.starts_with("xmlns") {
                    Plan::lenient("name is a Name but not a usable QName")
                } else {
                    Plan::ok()
                }
            }
            Op::CreateText { data, .. } => self.plan_create_data(Kind::Text, data),
            Op::CreateComment { data, .. } => self.plan_create_data(Kind::Comment, data),
            Op::CreateCData { data, .. } => self.plan_create_data(Kind::CData, data),
            Op::CreatePI { target, data, .. } => {
                if !has_only_name_chars(target) || target.eq_ignore_ascii_case("xml") {
                    Plan::fail(vec![ErrClass::InvalidChar])
                } else if target.contains(':') || !is_name(target) {
                    Plan::lenient("colon in PI target")
                } else if !storable(Kind::PI, data) || risky(Kind::PI, data) {
                    Plan::lenient("markup-significant PI data")
                } else {
                    Plan::ok()
                }
            }
            Op::CreateEntRef { doc, name, .. } => {
                if !has_only_name_chars(name) {
                    Plan::fail(vec![ErrClass::InvalidChar])
                } else if !is_name(name) || name.contains(':') || self.entity_value(*doc, name).is_none() {
                    Plan::lenient("undeclared entity")
                } else {
                    Plan::ok()
                }
            }
            Op::CreateFragment { .. } => Plan::ok(),
            // the entity and notation maps of a document type are read-only in DOM Level 1
            Op::DtMap { .. } => Plan::fail(vec![ErrClass::NoModAllowed]),
            Op::SetData { node, data } => self.plan_data(ns(node), 0, Some(data), &step.op),
            Op::AppendData { node, data } => self.plan_data(ns(node), 0, Some(data), &step.op),
            Op::InsertData { node, off, data } => self.plan_data(ns(node), *off, Some(data), &step.op),
            Op::DeleteData { node, off, .. } => self.plan_data(ns(node), *off, None, &step.op),
            Op::ReplaceData { node, off, data, .. } => self.plan_data(ns(node), *off, Some(data), &step.op),
            Op::Substring { node, off, .. } if self.is_run(*node).is_some() => {
                let run = self.is_run(*node).unwrap();
                if *off > chars_len(&self.run_data(&run)) {
                    Plan::fail(vec![ErrClass::IndexSize])
                } else {
                    Plan::ok()
                }
            }
            Op::Substring { node, off, .. } => match ns(node) {
                Some(m) if self.nodes[m].kind.is_chardata() => {
                    if *off > chars_len(&self.nodes[m].data) {
                        Plan::fail(vec![ErrClass::IndexSize])
                    } else {
                        Plan::ok()
                    }
                }
                _ => Plan::skip(),
            },
            // normalize() returns nothing: it cannot refuse.  Under the merged view there are no adjacent
            // Text nodes to begin with (a run of pieces is one node), so nothing observable may change.
            Op::Normalize { el } => match ns(el) {
                Some(m) if self.nodes[m].kind == Kind::Element => {
                    let mut p = Plan::ok();
                    p.no_effect = self.merges(m);
                    p
                }
                _ => Plan::skip(),
            },
            Op::SplitText { node, off, .. } => match ns(node) {
                Some(m) if matches!(self.nodes[m].kind, Kind::Text | Kind::CData) => {
                    if *off > chars_len(&self.nodes[m].data) {
                        Plan::fail(vec![ErrClass::IndexSize])
                    } else if self.nodes[m].parent.is_none() {
                        let mut p = Plan::either(vec![ErrClass::Hierarchy, ErrClass::Other], "split of a parentless text");
                        p.no_effect = false;
                        p
                    } else {
                        Plan::ok()
                    }
                }
                _ => Plan::skip(),
            },
            _ => Plan::ok(),
        }
    }

    fn plan_create_data(&self, kind: Kind, data: &str) -> Plan {
        if storable(kind, data) && !risky(kind, data) {
            Plan::ok()
        } else {
            // these factories cannot refuse; any node they return must survive persist/recover (C15)
            Plan { ok: true, note: "factory given markup-significant data", ..Default::default() }
        }
    }

    fn plan_data(&self, node: Option<Mid>, off: usize, data: Option<&String>, op: &Op) -> Plan {
        let m = match node {
            Some(m) if self.nodes[m].kind.is_chardata() => m,
            _ => return Plan::skip(),
        };
        let kind = self.nodes[m].kind;
        if off > chars_len(&self.nodes[m].data) {
            return Plan::fail(vec![ErrClass::IndexSize]);
        }
        // a result the node kind cannot hold may be refused (C15), whatever the fragment looks like
        if let Some(after) = self.data_after(m, op) {
            if !storable(kind, &after) {
                return Plan::lenient("resulting data is not storable");
            }
        }
        match data {
            Some(d) if risky(kind, d) => Plan::lenient("markup-significant data"),
            _ => Plan::ok(),
        }
    }

    // ------------------------------------------------------------------------------------------
    // applying the DOM Level 1 effect of a successful call

    pub fn apply_insert(&mut self, recv: Mid, new: Mid, refc: Option<Mid>) {
        self.detach(new);
        let idx = match refc {
            Some(r) => self.nodes[recv].children.iter().position(|c| *c == r).unwrap_or(self.nodes[recv].children.len()),
            None => self.nodes[recv].children.len(),
        };
        self.nodes[recv].children.insert(idx, new);
        self.nodes[new].parent = Some(recv);
    }

    pub fn apply_remove(&mut self, _recv: Mid, old: Mid) {
        self.detach(old);
    }

    pub fn apply_replace(&mut self, recv: Mid, new: Mid, old: Mid) {
        self.detach(new);
        let idx = self.nodes[recv].children.iter().position(|c| *c == old).unwrap_or(self.nodes[recv].children.len());
        self.nodes[recv].children.insert(idx, new);
        self.nodes[new].parent = Some(recv);
        self.detach(old);
    }

    /// returns the previously attached same-named attribute
    pub fn apply_set_attr_node(&mut self, el: Mid, attr: Mid) -> Option<Mid> {
        let local = local_of(&self.nodes[attr].name).to_string();
        let prev = self.find_attr(el, &local).filter(|p| *p != attr);
        if let Some(p) = prev {
            self.detach_attr(p);
        }
        if self.nodes[attr].owner_el != Some(el) {
            self.detach_attr(attr);
            self.push_attr(el, attr);
        }
        prev
    }

    pub fn apply_remove_attr(&mut self, el: Mid, local: &str) -> Option<Mid> {
        let a = self.find_attr(el, local);
        if let Some(a) = a {
            self.detach_attr(a);
        }
        a
    }

    /// Element.normalize() per DOM Level 1: in the whole subtree under `el`, every maximal run of two or more
    /// adjacent Text children becomes one Text node holding the concatenated data; the other nodes of the run
    /// leave the tree.  DOM Level 1 does not say which node of a run survives: if the observation shows exactly
    /// one member of the run still listed under the parent, that one is taken, otherwise the first.  A Text node
    /// with no Text neighbour stays as it is, empty or not (removal of empty nodes is Level 2).
    /// Returns the number of runs merged.
    pub fn apply_normalize(&mut self, el: Mid, post: &ObsMap) -> usize {
        if self.merges(el) {
            return 0;
        }
        let mut merged = 0;
        let mut todo = vec![el];
        while let Some(e) = todo.pop() {
            let kids = self.nodes[e].children.clone();
            let listed: Vec<Key> = self.key(e).and_then(|k| post.get(&k)).map(|o| o.children.clone()).unwrap_or_default();
            let mut i = 0;
            while i < kids.len() {
                if self.nodes[kids[i]].kind == Kind::Element {
                    todo.push(kids[i]);
                }
                if self.nodes[kids[i]].kind != Kind::Text {
                    i += 1;
                    continue;
                }
                let mut j = i;
                while j + 1 < kids.len() && self.nodes[kids[j + 1]].kind == Kind::Text {
                    j += 1;
                }
                if j > i {
                    let run: Vec<Mid> = kids[i..=j].to_vec();
                    let data: String = run.iter().map(|m| self.nodes[*m].data.as_str()).collect();
                    let left: Vec<Mid> = run.iter().cloned().filter(|m| self.key(*m).map(|k| listed.contains(&k)).unwrap_or(false)).collect();
                    let keep = if left.len() == 1 { left[0] } else { run[0] };
                    for m in &run {
                        if *m != keep {
                            self.detach(*m);
                        }
                    }
                    self.nodes[keep].data = data;
                    merged += 1;
                }
                i = j + 1;
            }
        }
        merged
    }

    /// DOM Level 1 speaks of the Text nodes "underneath" the element; Level 2 adds the value pieces of attributes.
    /// Either reading is admitted: where the observation after normalize() lists other value pieces for an
    /// attribute in the subtree than the model holds, the pieces are adopted — the *value* may not change
    /// (returned as (attribute, value before, value after) for the caller to judge).
    pub fn adopt_attr_pieces_under(&mut self, el: Mid, post: &ObsMap) -> Vec<(Mid, String, String)> {
        let mut out = vec![];
        let mut todo = vec![el];
        while let Some(e) = todo.pop() {
            for c in self.nodes[e].children.clone() {
                if self.nodes[c].kind == Kind::Element {
                    todo.push(c);
                }
            }
            for a in self.nodes[e].attrs.clone() {
                let listed: Vec<Key> = match self.key(a).and_then(|k| post.get(&k)) {
                    Some(o) => o.children.clone(),
                    None => continue,
                };
                let held: Vec<Option<Key>> = self.nodes[a].children.iter().map(|c| self.key(*c)).collect();
                if held.iter().any(|k| k.is_none()) || held.iter().map(|k| k.unwrap()).collect::<Vec<_>>() == listed {
                    continue;
                }
                let before = self.attr_value(a);
                self.adopt(a, post);
                let after = self.attr_value(a);
                out.push((a, before, after));
            }
        }
        out
    }

    /// CharacterData result per DOM L1 (offsets in Unicode scalar values, counts clipped)
    pub fn data_after(&self, m: Mid, op: &Op) -> Option<String> {
        let d = &self.nodes[m].data;
        let len = chars_len(d);
        Some(match op {
            Op::SetData { data, .. } => data.clone(),
            Op::AppendData { data, .. } => format!("{}{}", d, data),
            Op::InsertData { off, data, .. } => format!("{}{}{}", char_slice(d, 0, *off), data, char_slice(d, *off, len)),
            Op::DeleteData { off, cnt, .. } => {
                let end = off.saturating_add(*cnt).min(len);
                format!("{}{}", char_slice(d, 0, *off), char_slice(d, end, len))
            }
            Op::ReplaceData { off, cnt, data, .. } => {
                let end = off.saturating_add(*cnt).min(len);
                format!("{}{}{}", char_slice(d, 0, *off), data, char_slice(d, end, len))
            }
            _ => return None,
        })
    }

    /// Make the model's picture of `m` (children, attributes, values) equal to what the
    /// implementation reports.  Used only where the admissible outcome set is wider than one state.
    pub fn adopt(&mut self, m: Mid, post: &ObsMap) {
        let key = match self.key(m) {
            Some(k) => k,
            None => return,
        };
        let o = match post.get(&key) {
            Some(o) => o.clone(),
            None => return,
        };
        let doc = self.nodes[m].doc;
        if self.merges(m) && self.nodes[m].rid.is_some() && !self.nodes[m].children.is_empty() {
            // the merged view does not show the pieces: only the attributes are adopted
            self.adopt_attrs(m, &o, post, doc);
            return;
        }
        // children
        let mut kids = vec![];
        for ck in &o.children {
            let cm = match self.mid_of(*ck) {
                Some(cm) => cm,
                None => self.adopt_new(*ck, post, doc),
            };
            kids.push(cm);
        }
        let old: Vec<Mid> = self.nodes[m].children.clone();
        for c in old {
            if !kids.contains(&c) {
                self.nodes[c].parent = None;
            }
        }
        for c in &kids {
            if self.nodes[*c].parent != Some(m) {
                self.detach(*c);
            }
            self.nodes[*c].parent = Some(m);
        }
        self.nodes[m].children = kids.clone();
        if self.nodes[m].kind == Kind::Attr {
            for c in kids {
                // pieces of an attribute value: names and data as reported
                if let Some(co) = post.get(&self.key(c).unwrap()) {
                    let n = &mut self.nodes[c];
                    if let Some(v) = &co.value {
                        n.data = v.clone();
                    } else if let Some(v) = &co.ref_value {
                        n.data = v.clone();
                    }
                }
            }
        }
        self.adopt_attrs(m, &o, post, doc);
    }

    fn adopt_attrs(&mut self, m: Mid, o: &NodeObs, post: &ObsMap, doc: usize) {
        // attributes
        if self.nodes[m].kind == Kind::Element {
            let mut attrs = vec![];
            for a in &o.attrs {
                if a.key.id == 0 {
                    continue;
                }
                let am = match self.mid_of(a.key) {
                    Some(am) => am,
                    None => self.adopt_new(a.key, post, doc),
                };
                if let Some((p, _)) = a.qname.split_once(':') {
                    self.nodes[am].prefix = Some(p.to_string());
                }
                attrs.push(am);
            }
            let old: Vec<Mid> = self.nodes[m].attrs.clone();
            for a in old {
                if !attrs.contains(&a) {
                    self.nodes[a].owner_el = None;
                }
            }
            for a in &attrs {
                if self.nodes[*a].owner_el != Some(m) {
                    self.detach_attr(*a);
                }
                self.nodes[*a].owner_el = Some(m);
            }
            self.nodes[m].attrs = attrs;
        }
    }

    fn adopt_new(&mut self, key: Key, post: &ObsMap, doc: usize) -> Mid {
        let o = post.get(&key).cloned();
        let (kind, name, data) = match &o {
            Some(o) => {
                let kind = match o.kind {
                    OKind::Element => Kind::Element,
                    OKind::Attr => Kind::Attr,
                    OKind::Text => Kind::Text,
                    OKind::CData => Kind::CData,
                    OKind::EntRef => Kind::EntRef,
                    OKind::Comment => Kind::Comment,
                    OKind::PI => Kind::PI,
                    OKind::DocType => Kind::DocType,
                    _ => Kind::Text,
                };
                let data = if o.kind == OKind::EntRef { o.ref_value.clone().unwrap_or_default() } else { o.value.clone().unwrap_or_default() };
                (kind, o.name.clone(), data)
            }
            None => (Kind::Text, String::new(), String::new()),
        };
        let m = self.add(kind, &name, &data, doc);
        self.bind(m, key.id);
        if let Some(o) = &o {
            self.nodes[m].prefix = o.prefix.clone();
        }
        if kind == Kind::EntRef {
            if name.starts_with("&#") {
                self.nodes[m].kind = Kind::CharRef;
            }
            if data.starts_with("<ERR") {
                self.nodes[m].undeclared = true;
            }
        }
        if kind == Kind::Attr || kind == Kind::Element {
            self.adopt(m, post);
            if kind == Kind::Attr {
                self.nodes[m].value_free = false;
            }
        }
        m
    }
}

// ---------------------------------------------------------------------------------------------
// rendering (initial documents are written by the model and parsed by the implementation)

pub fn esc_text(s: &str) -> String {
    s.replace('&', "&amp;").replace('<', "&lt;")
}

impl Model {
    pub fn render_node(&self, m: Mid, out: &mut String) {
        let n = &self.nodes[m];
        match n.kind {
            Kind::Document => {
                if let Some(d) = &self.docs[n.doc].xml_decl {
                    out.push_str(d);
                }
                for c in &n.children {
                    self.render_node(*c, out);
                }
            }
            Kind::DocType => {
                out.push_str(&format!("<!DOCTYPE {}", n.name));
                let ents = &self.docs[n.doc].entities;
                if !ents.is_empty() {
                    out.push_str(" [");
                    for (k, v) in ents {
                        out.push_str(&format!("<!ENTITY {} \"{}\">", k, v));
                    }
                    out.push(']');
                }
                out.push('>');
            }
            Kind::Element => {
                out.push('<');
                out.push_str(&n.name);
                for (p, u) in &n.nsdecls {
                    if p.is_empty() {
                        out.push_str(&format!(" xmlns=\"{}\"", u));
                    } else {
                        out.push_str(&format!(" xmlns:{}=\"{}\"", p, u));
                    }
                }
                for a in &n.attrs {
                    out.push(' ');
                    self.render_node(*a, out);
                }
                if n.children.is_empty() {
                    out.push_str("/>");
                } else {
                    out.push('>');
                    for c in &n.children {
                        self.render_node(*c, out);
                    }
                    out.push_str(&format!("</{}>", n.name));
                }
            }
            Kind::Attr => {
                let mut v = String::new();
                for c in &n.children {
                    self.render_node(*c, &mut v);
                }
                let q = if v.contains('"') { '\'' } else { '"' };
                out.push_str(&format!("{}={}{}{}", n.name, q, v, q));
            }
            Kind::Text => out.push_str(&n.data),
            Kind::CData => out.push_str(&format!("<![CDATA[{}]]>", n.data)),
            Kind::Comment => out.push_str(&format!("<!--{}-->", n.data)),
            Kind::PI => {
                if n.data.is_empty() {
                    out.push_str(&format!("<?{}?>", n.name))
                } else {
                    out.push_str(&format!("<?{} {}?>", n.name, n.data))
                }
            }
            Kind::CharRef => out.push_str(&n.name),
            Kind::EntRef => out.push_str(&format!("&{};", n.name)),
            Kind::Fragment => {}
        }
    }

    pub fn render_doc(&self, doc: usize) -> String {
        let mut s = String::new();
        self.render_node(self.docs[doc].root, &mut s);
        s
    }
}
