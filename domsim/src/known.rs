//! Known findings: recognised on the reference model *before* a step is executed
//! (DESIGN.md §8).  The list itself lives in /verif/known_findings.txt and is never written at run time.
//! A trigger describes the *region of (state, call) pairs* in which a listed defect manifests; a pending
//! step inside the region is not executed in exploration runs (and counted), everything else is
//! executed under fully strict oracles.

use crate::model::*;
use crate::step::*;
use crate::world::World;

#[derive(Default, Clone, Debug)]
pub struct Findings {
    /// names of the trigger predicates that are active
    pub active: Vec<String>,
}

impl Findings {
    pub fn load(path: &str) -> Findings {
        let mut f = Findings::default();
        if let Ok(text) = std::fs::read_to_string(path) {
            for l in text.lines() {
                let l = l.trim();
                if !l.starts_with("finding:") {
                    continue;
                }
                for tok in l.split_whitespace() {
                    if let Some(t) = tok.strip_prefix("trigger=") {
                        if t != "none" && !f.active.iter().any(|a| a == t) {
                            f.active.push(t.to_string());
                        }
                    }
                }
            }
        }
        f
    }

    fn on(&self, name: &str) -> bool {
        self.active.iter().any(|a| a == name)
    }

    /// If the pending step falls into the region of a listed finding, return the trigger's name.
    pub fn trigger(&self, w: &World, st: &Step) -> Option<&'static str> {
        if self.active.is_empty() {
            return None;
        }
        let mut plan_ok: Option<bool> = None;
        for (name, pred) in TRIGGERS {
            if self.on(name) && pred(w, st) {
                // a call the model says must be refused leaves the region untouched: execute it
                let ok = *plan_ok.get_or_insert_with(|| {
                    let p = w.model.plan(st);
                    p.ok && !p.skip
                });
                if ok {
                    return Some(name);
                }
            }
        }
        None
    }
}

type Pred = fn(&World, &Step) -> bool;

fn kind_of(w: &World, s: S) -> Option<Kind> {
    w.model.node_slot(s).map(|m| w.model.nodes[m].kind)
}

/// create_text_node / create_comment / create_cdata_section given data the node kind cannot hold:
/// the factories cannot return an error and unwrap the validation result.
fn factory_unstorable_data(_w: &World, st: &Step) -> bool {
    match &st.op {
        Op::CreateText { data, .. } => !storable(Kind::Text, data),
        Op::CreateComment { data, .. } => !storable(Kind::Comment, data),
        Op::CreateCData { data, .. } => !storable(Kind::CData, data),
        _ => false,
    }
}

/// a structure call that removes or moves the DOCTYPE node: entity references lose their declarations,
/// and the document can end up with the doctype after the document element
fn doctype_moved(w: &World, st: &Step) -> bool {
    let is_dt = |s: &S| kind_of(w, *s) == Some(Kind::DocType);
    // the defect needs a reference to an entity the doctype declares, somewhere in that document's nodes
    let uses_declared_entity = |s: &S| -> bool {
        let doc = match w.model.node_slot(*s) {
            Some(m) => w.model.nodes[m].doc,
            None => return false,
        };
        let in_model = w.model.nodes.iter().any(|n| {
            !n.dead && n.doc == doc && n.kind == Kind::EntRef && !matches!(n.name.as_str(), "lt" | "gt" | "amp" | "apos" | "quot")
        });
        // the merged-text view hides reference items: look at the serialisation too
        let in_text = match w.last_ser.get(doc) {
            Some(Some(t)) => w.model.docs[doc].entities.iter().any(|(name, _)| t.contains(&format!("&{};", name))),
            _ => true,
        };
        // detached subtrees of a merged-view document cannot be inspected either way: assume a reference
        let hidden = w.model.docs[doc].expanded && !w.model.docs[doc].entities.is_empty();
        in_model || in_text || hidden
    };
    let is_dt = |s: &S| is_dt(s) && uses_declared_entity(s);
    match &st.op {
        Op::InsertBefore { new, .. } | Op::AppendChild { new, .. } => is_dt(new),
        Op::ReplaceChild { new, old, .. } => is_dt(new) || is_dt(old),
        Op::RemoveChild { old, .. } => is_dt(old),
        _ => false,
    }
}

/// set_attribute / set_attribute_node / set_named_item where the element already carries an attribute with
/// the same local part but another prefix: the library identifies attributes by local part and replaces it
fn attr_local_collision(w: &World, st: &Step) -> bool {
    let collides = |el: Mid, local: &str, prefix: Option<&str>| -> bool {
        w.model.nodes[el].attrs.iter().any(|a| {
            let n = &w.model.nodes[*a];
            local_of(&n.name) == local && n.prefix.as_deref() != prefix
        })
    };
    // the same identification reaches the (hidden) namespace declarations: an attribute call whose local
    // name is a prefix the element declares replaces or removes the declaration (the generated documents
    // declare p and q on the document element)
    let hits_declaration = |el: Mid, name: &str| -> bool {
        // (which element carries the declarations is not tracked by the model — a former document element
        // may sit anywhere after moves — so the region is taken by name alone)
        let local = local_of(name);
        let _ = el;
        !name.starts_with("xmlns") && (local == "p" || local == "q")
    };
    match &st.op {
        Op::RemoveAttribute { el, name } => match w.model.node_slot(*el) {
            Some(e) => hits_declaration(e, name),
            None => false,
        },
        Op::MapRemoveNamedItem { map, name, .. } => match w.model.slot(*map) {
            Some(MSlot::Map(e)) => hits_declaration(*e, name),
            _ => false,
        },
        Op::SetAttribute { el, name, .. } => match w.model.node_slot(*el) {
            Some(e) => {
                let (p, l) = match name.split_once(':') {
                    Some((p, l)) => (Some(p), l),
                    None => (None, name.as_str()),
                };
                collides(e, l, p) || hits_declaration(e, name)
            }
            None => false,
        },
        Op::SetAttributeNode { el, attr, .. } => match (w.model.node_slot(*el), w.model.node_slot(*attr)) {
            (Some(e), Some(a)) => {
                let n = &w.model.nodes[a];
                n.kind == Kind::Attr && (collides(e, local_of(&n.name), n.prefix.as_deref()) || (!n.nsdecl && hits_declaration(e, &n.name)))
            }
            _ => false,
        },
        Op::MapSetNamedItem { map, attr, .. } => match (w.model.slot(*map), w.model.node_slot(*attr)) {
            (Some(MSlot::Map(e)), Some(a)) => {
                let n = &w.model.nodes[a];
                n.kind == Kind::Attr && (collides(*e, local_of(&n.name), n.prefix.as_deref()) || (!n.nsdecl && hits_declaration(*e, &n.name)))
            }
            _ => false,
        },
        _ => false,
    }
}

/// a DocumentFragment offered as new child (DocumentFragment is a stub in this library: every insertion is refused)
fn fragment_insert(w: &World, st: &Step) -> bool {
    let is_frag = |s: &S| kind_of(w, *s) == Some(Kind::Fragment);
    match &st.op {
        Op::InsertBefore { new, .. } | Op::AppendChild { new, .. } | Op::ReplaceChild { new, .. } => is_frag(new),
        _ => false,
    }
}

/// the canned probes that mutate an attribute object present through a DTD default (Probe 0, 1, 2)
fn defaulted_attr_object_mutated(_w: &World, st: &Step) -> bool {
    matches!(&st.op, Op::Probe { which, .. } if *which < 3)
}

/// set_attribute with a value containing '&': the library reads the value as attribute markup
fn attr_value_with_reference(_w: &World, st: &Step) -> bool {
    matches!(&st.op, Op::SetAttribute { value, .. } if value.contains('&'))
}

pub const TRIGGERS: &[(&str, Pred)] = &[
    ("attr_value_with_reference", attr_value_with_reference),
    ("defaulted_attr_object_mutated", defaulted_attr_object_mutated),
    ("fragment_insert", fragment_insert),
    ("attr_local_collision", attr_local_collision),
    ("factory_unstorable_data", factory_unstorable_data),
    ("doctype_moved", doctype_moved),
];
