//! Known findings: recognised on the reference model *before* a step is executed
//! (DESIGN.md §8).  The list itself lives in /verif/known_findings.txt and is never written at run time.

use crate::step::*;
use crate::world::World;

#[derive(Default, Clone, Debug)]
pub struct Findings {
    /// names of the trigger predicates that are active
    pub active: Vec<String>,
}

impl Findings {
    pub fn load(path: &str) -> Findings {
        let mut f = Findings::default();
        if let Ok(text) = std::fs::read_to_string(path) {
            for l in text.lines() {
                let l = l.trim();
                if !l.starts_with("finding:") {
                    continue;
                }
                for tok in l.split_whitespace() {
                    if let Some(t) = tok.strip_prefix("trigger=") {
                        if t != "none" {
                            f.active.push(t.to_string());
                        }
                    }
                }
            }
        }
        f
    }

    fn on(&self, name: &str) -> bool {
        self.active.iter().any(|a| a == name)
    }

    /// If the pending step falls into the region of a listed finding, return the trigger's name.
    pub fn trigger(&self, w: &World, st: &Step) -> Option<&'static str> {
        if self.active.is_empty() {
            return None;
        }
        let _ = (w, st);
        for (name, pred) in TRIGGERS {
            if self.on(name) && pred(w, st) {
                return Some(name);
            }
        }
        None
    }
}

type Pred = fn(&World, &Step) -> bool;

pub const TRIGGERS: &[(&str, Pred)] = &[];
