//! Character classes of XML 1.0 (fifth edition) needed by the reference model.

pub fn is_char(c: char) -> bool {
    let c = c as u32;
    c == 0x9 || c == 0xA || c == 0xD || (0x20..=0xD7FF).contains(&c) || (0xE000..=0xFFFD).contains(&c) || (0x10000..=0x10FFFF).contains(&c)
}

pub fn is_name_start(c: char) -> bool {
    let u = c as u32;
    c == ':'
        || c == '_'
        || c.is_ascii_alphabetic()
        || (0xC0..=0xD6).contains(&u)
        || (0xD8..=0xF6).contains(&u)
        || (0xF8..=0x2FF).contains(&u)
        || (0x370..=0x37D).contains(&u)
        || (0x37F..=0x1FFF).contains(&u)
        || (0x200C..=0x200D).contains(&u)
        || (0x2070..=0x218F).contains(&u)
        || (0x2C00..=0x2FEF).contains(&u)
        || (0x3001..=0xD7FF).contains(&u)
        || (0xF900..=0xFDCF).contains(&u)
        || (0xFDF0..=0xFFFD).contains(&u)
        || (0x10000..=0xEFFFF).contains(&u)
}

pub fn is_name_char(c: char) -> bool {
    let u = c as u32;
    is_name_start(c) || c == '-' || c == '.' || c.is_ascii_digit() || u == 0xB7 || (0x300..=0x36F).contains(&u) || (0x203F..=0x2040).contains(&u)
}

/// XML `Name`
pub fn is_name(s: &str) -> bool {
    let mut it = s.chars();
    match it.next() {
        Some(c) if is_name_start(c) => {}
        _ => return false,
    }
    it.all(is_name_char)
}

/// Namespaces-in-XML `QName` (at most one colon, neither part empty, parts are NCNames)
pub fn is_qname(s: &str) -> bool {
    if !is_name(s) {
        return false;
    }
    let parts: Vec<&str> = s.split(':').collect();
    match parts.len() {
        1 => true,
        2 => !parts[0].is_empty() && !parts[1].is_empty() && is_name(parts[0]) && is_name(parts[1]),
        _ => false,
    }
}

pub fn all_chars(s: &str) -> bool {
    s.chars().all(is_char)
}

/// attribute-value white-space normalisation of literal characters
pub fn norm_attr_ws(s: &str) -> String {
    s.chars().map(|c| if c == '\t' || c == '\n' || c == '\r' { ' ' } else { c }).collect()
}

/// non-empty and made of name characters only (the start-character rule is C18's business)
pub fn has_only_name_chars(s: &str) -> bool {
    !s.is_empty() && s.chars().all(is_name_char)
}
