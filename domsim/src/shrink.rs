//! Minimisation of a failing history: ddmin over the step list, then single-step removal,
//! then argument shrinking.  A candidate is kept only if the same clause of the same property fails.

use crate::history::*;
use crate::step::*;

fn reproduces(h: &History, prop: &str, clause: &str, execs: &mut usize) -> Option<(usize, String)> {
    *execs += 1;
    let res = h.execute();
    if res.setup_error.is_some() {
        return None;
    }
    let at = res.failed_at?;
    let f = res.fails.iter().find(|f| f.prop == prop && f.clause == clause)?;
    Some((at, f.detail.clone()))
}

fn with_steps(h: &History, steps: Vec<Step>) -> History {
    let mut n = h.clone();
    n.steps = steps;
    n
}

fn shorter_strings(op: &Op) -> Vec<Op> {
    let mut out = vec![];
    let mut push = |o: Op| out.push(o);
    fn cut(s: &str) -> Vec<String> {
        let cs: Vec<char> = s.chars().collect();
        let mut v = vec![];
        if cs.len() > 1 {
            v.push(cs[..cs.len() / 2].iter().collect());
            v.push(cs[cs.len() / 2..].iter().collect());
            v.push(cs[1..].iter().collect());
            v.push(cs[..cs.len() - 1].iter().collect());
        }
        if !cs.is_empty() && s != "a" {
            v.push("a".to_string());
        }
        v
    }
    match op {
        Op::SetAttribute { el, name, value } => {
            for v in cut(value) {
                push(Op::SetAttribute { el: *el, name: name.clone(), value: v });
            }
        }
        Op::SetValue { node, value } => {
            for v in cut(value) {
                push(Op::SetValue { node: *node, value: v });
            }
        }
        Op::CreateText { doc, data, out: o } => {
            for v in cut(data) {
                push(Op::CreateText { doc: *doc, data: v, out: *o });
            }
        }
        Op::CreateComment { doc, data, out: o } => {
            for v in cut(data) {
                push(Op::CreateComment { doc: *doc, data: v, out: *o });
            }
        }
        Op::CreateCData { doc, data, out: o } => {
            for v in cut(data) {
                push(Op::CreateCData { doc: *doc, data: v, out: *o });
            }
        }
        Op::SetData { node, data } => {
            for v in cut(data) {
                push(Op::SetData { node: *node, data: v });
            }
        }
        Op::AppendData { node, data } => {
            for v in cut(data) {
                push(Op::AppendData { node: *node, data: v });
            }
        }
        Op::InsertData { node, off, data } => {
            for v in cut(data) {
                push(Op::InsertData { node: *node, off: *off, data: v });
            }
            if *off > 0 && *off < 1000 {
                push(Op::InsertData { node: *node, off: 0, data: data.clone() });
            }
        }
        Op::ReplaceData { node, off, cnt, data } => {
            for v in cut(data) {
                push(Op::ReplaceData { node: *node, off: *off, cnt: *cnt, data: v });
            }
        }
        _ => {}
    }
    out
}

/// Returns the minimised history (with its `expect` line updated) and the number of executions used.
pub fn shrink(h: &History, budget: usize) -> Option<(History, usize)> {
    let (_, prop, clause, _) = h.expect.clone()?;
    let mut execs = 0usize;
    reproduces(h, &prop, &clause, &mut execs)?;
    let mut cur = h.clone();
    // cut everything after the failing step
    if let Some((at, _)) = reproduces(&cur, &prop, &clause, &mut execs) {
        cur.steps.truncate(at + 1);
    }
    // ddmin
    let mut n = 2usize;
    while cur.steps.len() >= 2 && execs < budget {
        let len = cur.steps.len();
        let chunk = (len + n - 1) / n;
        let mut reduced = false;
        let mut start = 0;
        while start < len && execs < budget {
            let end = (start + chunk).min(len);
            let mut cand: Vec<Step> = vec![];
            cand.extend_from_slice(&cur.steps[..start]);
            cand.extend_from_slice(&cur.steps[end..]);
            if cand.is_empty() {
                start = end;
                continue;
            }
            let c = with_steps(&cur, cand);
            if let Some((at, _)) = reproduces(&c, &prop, &clause, &mut execs) {
                cur = c;
                cur.steps.truncate(at + 1);
                n = n.saturating_sub(1).max(2);
                reduced = true;
                break;
            }
            start = end;
        }
        if !reduced {
            if n >= len {
                break;
            }
            n = (n * 2).min(len);
        }
    }
    // single removals until a fixpoint
    let mut changed = true;
    while changed && execs < budget {
        changed = false;
        let mut i = 0;
        while i < cur.steps.len() && execs < budget {
            let mut cand = cur.steps.clone();
            cand.remove(i);
            let c = with_steps(&cur, cand);
            if let Some((at, _)) = reproduces(&c, &prop, &clause, &mut execs) {
                cur = c;
                cur.steps.truncate(at + 1);
                changed = true;
            } else {
                i += 1;
            }
        }
    }
    // handle substitution: use an earlier handle to the same node, so that the steps which only
    // produced the later handle become removable
    let input_fields = ["recv=", "new=", "old=", "ref=", "node=", "el=", "attr=", "list=", "vec=", "map=", "ctx="];
    let mut substituted = false;
    let mut i = 0;
    while i < cur.steps.len() && execs < budget {
        let line = cur.steps[i].to_line();
        let mut done = false;
        for tok in line.split(' ') {
            let (f, v) = match input_fields.iter().find(|f| tok.starts_with(**f)) {
                Some(f) => (*f, &tok[f.len()..]),
                None => continue,
            };
            let b: usize = match v.parse() {
                Ok(b) => b,
                Err(_) => continue,
            };
            // earlier outputs, smallest first
            let mut outs: Vec<usize> = vec![];
            for s in &cur.steps[..i] {
                for t in s.to_line().split(' ') {
                    if let Some(o) = t.strip_prefix("out=") {
                        if let Ok(o) = o.parse::<usize>() {
                            if o != b && !outs.contains(&o) {
                                outs.push(o);
                            }
                        }
                    }
                }
            }
            outs.sort();
            for a in outs {
                if a >= b || execs >= budget {
                    break;
                }
                let new_line: Vec<String> = line.split(' ').map(|t| if t == tok { format!("{}{}", f, a) } else { t.to_string() }).collect();
                if let Some(st) = Step::from_line(&new_line.join(" ")) {
                    let mut c = cur.clone();
                    c.steps[i] = st;
                    if reproduces(&c, &prop, &clause, &mut execs).is_some() {
                        cur = c;
                        substituted = true;
                        done = true;
                        break;
                    }
                }
            }
            if done {
                break;
            }
        }
        if !done {
            i += 1;
        }
    }
    if substituted {
        let mut changed = true;
        while changed && execs < budget {
            changed = false;
            let mut i = 0;
            while i < cur.steps.len() && execs < budget {
                let mut cand = cur.steps.clone();
                cand.remove(i);
                let c = with_steps(&cur, cand);
                if let Some((at, _)) = reproduces(&c, &prop, &clause, &mut execs) {
                    cur = c;
                    cur.steps.truncate(at + 1);
                    changed = true;
                } else {
                    i += 1;
                }
            }
        }
    }
    // drop the second document if it is not needed
    if cur.docs.len() > 1 && execs < budget {
        let uses_doc1 = cur.steps.iter().any(|s| s.to_line().contains("doc=1"));
        if !uses_doc1 {
            let mut c = cur.clone();
            c.docs.truncate(1);
            if reproduces(&c, &prop, &clause, &mut execs).is_some() {
                cur = c;
            }
        }
    }
    // shrink the documents: remove subtrees and attributes the failure does not need
    for d in 0..cur.docs.len() {
        let mut progress = true;
        while progress && execs < budget {
            progress = false;
            let (text, expanded) = cur.docs[d].clone();
            let items = removable(&text);
            for it in items {
                if execs >= budget {
                    break;
                }
                if let Some(t2) = remove_item(&text, &it) {
                    if t2.len() >= text.len() {
                        continue;
                    }
                    let mut c = cur.clone();
                    c.docs[d] = (t2.clone(), expanded);
                    // a twin stays a twin
                    if d == 0 && c.docs.len() > 1 && c.docs[1].0 == text {
                        c.docs[1].0 = t2;
                    }
                    if let Some((at, _)) = reproduces(&c, &prop, &clause, &mut execs) {
                        cur = c;
                        cur.steps.truncate(at + 1);
                        progress = true;
                        break;
                    }
                }
            }
        }
    }
    // drop the query pool entries that are not needed
    if !cur.diff_pool.is_empty() && execs < budget {
        let mut i = 0;
        while i < cur.diff_pool.len() && execs < budget {
            let mut c = cur.clone();
            c.diff_pool.remove(i);
            if reproduces(&c, &prop, &clause, &mut execs).is_some() {
                cur = c;
            } else {
                i += 1;
            }
        }
    }
    // argument shrinking
    let mut i = 0;
    while i < cur.steps.len() && execs < budget {
        let mut improved = false;
        for alt in shorter_strings(&cur.steps[i].op) {
            let mut c = cur.clone();
            c.steps[i].op = alt;
            if reproduces(&c, &prop, &clause, &mut execs).is_some() {
                cur = c;
                improved = true;
                break;
            }
            if execs >= budget {
                break;
            }
        }
        if !improved {
            i += 1;
        }
    }
    let (at, detail) = reproduces(&cur, &prop, &clause, &mut execs)?;
    cur.steps.truncate(at + 1);
    cur.expect = Some((at, prop, clause, detail));
    Some((cur, execs))
}

// ---------------------------------------------------------------------------------------------
// document shrinking through the library's own DOM (the candidate is only kept if the failure persists)

#[derive(Clone, Debug)]
enum Item {
    Node(Vec<usize>),
    Attr(Vec<usize>, String),
}

fn parse(text: &str) -> Option<xml_dom::XmlDocument> {
    crate::real::guarded(|| match xml_dom::XmlDocument::from_raw(text) {
        Ok((rest, d)) if rest.is_empty() => Some(d),
        _ => None,
    })
    .ok()
    .flatten()
}

fn node_at(d: &xml_dom::XmlDocument, path: &[usize]) -> Option<xml_dom::XmlNode> {
    use xml_dom::{AsNode, Node, NodeList};
    let mut cur = d.as_node();
    for i in path {
        cur = cur.child_nodes().item(*i)?;
    }
    Some(cur)
}

/// everything that can be taken out: larger subtrees first
fn removable(text: &str) -> Vec<Item> {
    use xml_dom::{AsNode, Attr, Node, XmlNode};
    let mut out = vec![];
    let d = match parse(text) {
        Some(d) => d,
        None => return out,
    };
    let r = crate::real::guarded(|| {
        let mut items = vec![];
        let mut stack: Vec<(XmlNode, Vec<usize>)> = vec![(d.as_node(), vec![])];
        let mut guard = 0;
        while let Some((n, path)) = stack.pop() {
            guard += 1;
            if guard > 2000 {
                break;
            }
            if let Some(m) = n.attributes() {
                for a in m.iter() {
                    items.push(Item::Attr(path.clone(), a.name()));
                }
            }
            let kids: Vec<XmlNode> = n.child_nodes().iter().collect();
            for (i, k) in kids.iter().enumerate() {
                let mut p = path.clone();
                p.push(i);
                let is_root_element = path.is_empty() && matches!(k, XmlNode::Element(_));
                let is_doctype = matches!(k, XmlNode::DocumentType(_));
                if !is_root_element && !is_doctype {
                    items.push(Item::Node(p.clone()));
                }
                if matches!(k, XmlNode::Element(_)) {
                    stack.push((k.clone(), p));
                }
            }
        }
        items
    });
    if let Ok(items) = r {
        out = items;
    }
    out
}

fn remove_item(text: &str, it: &Item) -> Option<String> {
    use xml_dom::{ElementMut, Node, NodeMut, XmlNode};
    let d = parse(text)?;
    crate::real::guarded(|| {
        match it {
            Item::Node(path) => {
                let n = node_at(&d, path)?;
                let parent = n.parent_node()?;
                match parent {
                    XmlNode::Element(e) => e.remove_child(&n).ok()?,
                    XmlNode::Document(doc) => doc.remove_child(&n).ok()?,
                    _ => return None,
                };
            }
            Item::Attr(path, name) => {
                if let XmlNode::Element(e) = node_at(&d, path)? {
                    e.remove_attribute(name).ok()?;
                } else {
                    return None;
                }
            }
        }
        let t = format!("{}", d);
        // only keep candidates the parser still accepts
        parse(&t).map(|_| t)
    })
    .ok()
    .flatten()
}
