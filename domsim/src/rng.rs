//! xoshiro256** seeded through splitmix64.  The only source of choice in domsim.

#[derive(Clone)]
pub struct Rng {
    s: [u64; 4],
    pub draws: u64,
}

fn splitmix(x: &mut u64) -> u64 {
    *x = x.wrapping_add(0x9E3779B97F4A7C15);
    let mut z = *x;
    z = (z ^ (z >> 30)).wrapping_mul(0xBF58476D1CE4E5B9);
    z = (z ^ (z >> 27)).wrapping_mul(0x94D049BB133111EB);
    z ^ (z >> 31)
}

pub fn mix(seed: u64, run: u64) -> u64 {
    let mut x = seed ^ run.wrapping_mul(0xD1342543DE82EF95).rotate_left(17);
    let a = splitmix(&mut x);
    let b = splitmix(&mut x);
    a ^ b.rotate_left(23)
}

impl Rng {
    pub fn new(seed: u64) -> Rng {
        let mut x = seed;
        let s = [
            splitmix(&mut x),
            splitmix(&mut x),
            splitmix(&mut x),
            splitmix(&mut x),
        ];
        Rng { s, draws: 0 }
    }

    pub fn next(&mut self) -> u64 {
        self.draws += 1;
        let r = self.s[1].wrapping_mul(5).rotate_left(7).wrapping_mul(9);
        let t = self.s[1] << 17;
        self.s[2] ^= self.s[0];
        self.s[3] ^= self.s[1];
        self.s[1] ^= self.s[2];
        self.s[0] ^= self.s[3];
        self.s[2] ^= t;
        self.s[3] = self.s[3].rotate_left(45);
        r
    }

    /// uniform in 0..n (n > 0)
    pub fn below(&mut self, n: usize) -> usize {
        debug_assert!(n > 0);
        (self.next() % (n as u64)) as usize
    }

    /// uniform in lo..=hi
    pub fn range(&mut self, lo: usize, hi: usize) -> usize {
        lo + self.below(hi - lo + 1)
    }

    /// true with probability pct/100
    pub fn pct(&mut self, pct: usize) -> bool {
        self.below(100) < pct
    }

    pub fn pick<'a, T>(&mut self, xs: &'a [T]) -> &'a T {
        &xs[self.below(xs.len())]
    }

    pub fn ps<'a>(&mut self, xs: &[&'a str]) -> &'a str {
        xs[self.below(xs.len())]
    }

    /// weighted index
    pub fn weighted(&mut self, ws: &[usize]) -> usize {
        let total: usize = ws.iter().sum();
        if total == 0 {
            return 0;
        }
        let mut r = self.below(total);
        for (i, w) in ws.iter().enumerate() {
            if r < *w {
                return i;
            }
            r -= *w;
        }
        ws.len() - 1
    }
}

/// FNV-1a 64
pub fn fnv(data: &[u8]) -> u64 {
    let mut h: u64 = 0xcbf29ce484222325;
    for b in data {
        h ^= *b as u64;
        h = h.wrapping_mul(0x100000001b3);
    }
    h
}

pub fn fnv_add(h: u64, data: &[u8]) -> u64 {
    let mut h = h;
    for b in data {
        h ^= *b as u64;
        h = h.wrapping_mul(0x100000001b3);
    }
    h
}
