//! The implementation under test, driven only through its public API.

use crate::model::ErrClass;
use crate::obs::*;
use crate::step::*;
use std::cell::RefCell;
use std::collections::BTreeSet;
use std::panic::{catch_unwind, AssertUnwindSafe};
use xml_dom::error::{DomException, Error as DomError};
use xml_dom::{
    AsNode, Attr, AttrMut, CharacterData, CharacterDataMut, Document, DocumentMut, Element, ElementMut, NamedNodeMap,
    NamedNodeMapMut, Node, NodeList, NodeMut, NodeType, ProcessingInstructionMut, TextMut, XmlAttr, XmlDocument,
    XmlNamedNodeMap, XmlNode, XmlNodeList,
};
use xml_xpath::eval::model::{Context as XCtx, Value as XValue};

thread_local! {
    static LAST_PANIC: RefCell<String> = RefCell::new(String::new());
}

pub fn install_panic_hook() {
    std::panic::set_hook(Box::new(|info| {
        let loc = info.location().map(|l| format!("{}:{}", l.file(), l.line())).unwrap_or_default();
        let msg = if let Some(s) = info.payload().downcast_ref::<&str>() {
            s.to_string()
        } else if let Some(s) = info.payload().downcast_ref::<String>() {
            s.clone()
        } else {
            "?".to_string()
        };
        LAST_PANIC.with(|p| *p.borrow_mut() = format!("{} @ {}", msg, loc));
    }));
}

pub fn guarded<T>(f: impl FnOnce() -> T) -> Result<T, String> {
    match catch_unwind(AssertUnwindSafe(f)) {
        Ok(v) => Ok(v),
        Err(_) => Err(LAST_PANIC.with(|p| p.borrow().clone())),
    }
}

pub enum RSlot {
    Node { node: XmlNode, doc: usize },
    Vec { nodes: Vec<XmlNode>, doc: usize },
    List { list: XmlNodeList, of: XmlNode, doc: usize },
    TagList { list: xml_dom::XmlElementList, of: XmlNode, doc: usize },
    Map { map: XmlNamedNodeMap<XmlAttr>, of: XmlNode, doc: usize },
    Ctx { ctx: XCtx, ns: Vec<(String, String)> },
}

pub struct RDoc {
    pub dom: XmlDocument,
    pub text: String,
    pub expanded: bool,
}

#[derive(Clone, Debug, PartialEq)]
pub enum QVal {
    Bool(bool),
    Num(u64),
    Str(String),
    Nodes(Vec<Key>),
    Err(String),
    Panic(String),
}

#[derive(Clone, Debug, PartialEq)]
pub enum Ret {
    Unit,
    Node(Option<Key>),
    Nodes(Vec<Key>),
    Str(String),
    Len(usize),
    Q(QVal),
}

#[derive(Clone, Debug, PartialEq)]
pub enum Outcome {
    Ok(Ret),
    Err(ErrClass, String),
    Panic(String),
    Skipped,
}

pub struct Real {
    pub docs: Vec<RDoc>,
    pub slots: Vec<Option<RSlot>>,
}

pub fn err_class(e: &DomError) -> ErrClass {
    match e {
        DomError::Dom(d) => match d {
            DomException::IndexSizeErr => ErrClass::IndexSize,
            DomException::DomStringSizeErr => ErrClass::DomStringSize,
            DomException::HierarchyRequestErr => ErrClass::Hierarchy,
            DomException::WrongDocumentErr => ErrClass::WrongDoc,
            DomException::InvalidCharacterErr => ErrClass::InvalidChar,
            DomException::NoDataAllowedErr => ErrClass::NoDataAllowed,
            DomException::NoModificationAllowedErr => ErrClass::NoModAllowed,
            DomException::NotFoundErr => ErrClass::NotFound,
            DomException::NotSupportErr => ErrClass::NotSupported,
            DomException::InuseAttributeErr => ErrClass::InUse,
        },
        _ => ErrClass::Other,
    }
}

pub fn okind(n: &XmlNode) -> OKind {
    match n {
        XmlNode::Element(_) => OKind::Element,
        XmlNode::Attribute(_) => OKind::Attr,
        XmlNode::Text(_) | XmlNode::ExpandedText(_) => OKind::Text,
        XmlNode::CData(_) => OKind::CData,
        XmlNode::EntityReference(_) => OKind::EntRef,
        XmlNode::Comment(_) => OKind::Comment,
        XmlNode::PI(_) => OKind::PI,
        XmlNode::Document(_) => OKind::Document,
        XmlNode::DocumentType(_) => OKind::DocType,
        XmlNode::DocumentFragment(_) => OKind::Fragment,
        _ => OKind::Other,
    }
}

pub fn parse_doc(text: &str, expanded: bool) -> Result<XmlDocument, String> {
    let r = if expanded {
        XmlDocument::from_raw_with_context(text, xml_dom::Context::from_text_expanded(true))
    } else {
        XmlDocument::from_raw(text)
    };
    match r {
        Ok((rest, d)) => {
            if rest.is_empty() {
                Ok(d)
            } else {
                Err(format!("unconsumed input {:?}", rest))
            }
        }
        Err(e) => Err(format!("{}", e)),
    }
}

enum Recv<'a> {
    Doc(&'a xml_dom::XmlDocument),
    El(&'a xml_dom::XmlElement),
    At(&'a XmlAttr),
    Tx(&'a xml_dom::XmlText),
    Cm(&'a xml_dom::XmlComment),
    Cd(&'a xml_dom::XmlCDataSection),
    Pi(&'a xml_dom::XmlProcessingInstruction),
}

fn recv_of(n: &XmlNode) -> Option<Recv<'_>> {
    Some(match n {
        XmlNode::Document(v) => Recv::Doc(v),
        XmlNode::Element(v) => Recv::El(v),
        XmlNode::Attribute(v) => Recv::At(v),
        XmlNode::Text(v) => Recv::Tx(v),
        XmlNode::Comment(v) => Recv::Cm(v),
        XmlNode::CData(v) => Recv::Cd(v),
        XmlNode::PI(v) => Recv::Pi(v),
        _ => return None,
    })
}

macro_rules! each_recv {
    ($r:expr, $v:ident => $e:expr) => {
        match $r {
            Recv::Doc($v) => $e,
            Recv::El($v) => $e,
            Recv::At($v) => $e,
            Recv::Tx($v) => $e,
            Recv::Cm($v) => $e,
            Recv::Cd($v) => $e,
            Recv::Pi($v) => $e,
        }
    };
}

type DR<T> = Result<T, DomError>;

impl Real {
    pub fn new() -> Real {
        Real { docs: vec![], slots: vec![] }
    }

    pub fn set(&mut self, s: S, v: RSlot) {
        while self.slots.len() <= s {
            self.slots.push(None);
        }
        self.slots[s] = Some(v);
    }

    pub fn clear(&mut self, s: S) {
        if s < self.slots.len() {
            self.slots[s] = None;
        }
    }

    pub fn node(&self, s: S) -> Option<(XmlNode, usize)> {
        match self.slots.get(s).and_then(|v| v.as_ref()) {
            Some(RSlot::Node { node, doc }) => Some((node.clone(), *doc)),
            _ => None,
        }
    }

    fn put_node(&mut self, out: S, n: &XmlNode, doc: usize) -> Key {
        let key = Key { doc, id: n.id() };
        self.set(out, RSlot::Node { node: n.clone(), doc });
        key
    }

    fn finish_node(&mut self, out: S, doc: usize, r: Result<DR<XmlNode>, String>) -> Outcome {
        match r {
            Err(p) => Outcome::Panic(p),
            Ok(Err(e)) => Outcome::Err(err_class(&e), format!("{:?}", e)),
            Ok(Ok(n)) => {
                let k = self.put_node(out, &n, doc);
                Outcome::Ok(Ret::Node(Some(k)))
            }
        }
    }

    fn finish_unit(&mut self, r: Result<DR<()>, String>) -> Outcome {
        match r {
            Err(p) => Outcome::Panic(p),
            Ok(Err(e)) => Outcome::Err(err_class(&e), format!("{:?}", e)),
            Ok(Ok(())) => Outcome::Ok(Ret::Unit),
        }
    }

    /// Execute one step against the library.  Every call runs under catch_unwind.
    pub fn exec(&mut self, step: &Step) -> Outcome {
        match &step.op {
            Op::InsertBefore { recv, new, refc, out } => {
                let (r, doc) = match self.node(*recv) {
                    Some(x) => x,
                    None => return Outcome::Skipped,
                };
                let (n, _) = match self.node(*new) {
                    Some(x) => x,
                    None => return Outcome::Skipped,
                };
                let rc = match refc {
                    Some(s) => match self.node(*s) {
                        Some(x) => Some(x.0),
                        None => return Outcome::Skipped,
                    },
                    None => None,
                };
                let rv = match recv_of(&r) {
                    Some(v) => v,
                    None => return Outcome::Skipped,
                };
                let res = guarded(|| each_recv!(rv, v => v.insert_before(n, rc.as_ref())));
                self.finish_node(*out, doc, res)
            }
            Op::AppendChild { recv, new, out } => {
                let (r, doc) = match self.node(*recv) {
                    Some(x) => x,
                    None => return Outcome::Skipped,
                };
                let (n, _) = match self.node(*new) {
                    Some(x) => x,
                    None => return Outcome::Skipped,
                };
                let rv = match recv_of(&r) {
                    Some(v) => v,
                    None => return Outcome::Skipped,
                };
                let res = guarded(|| each_recv!(rv, v => v.append_child(n)));
                self.finish_node(*out, doc, res)
            }
            Op::ReplaceChild { recv, new, old, out } => {
                let (r, doc) = match self.node(*recv) {
                    Some(x) => x,
                    None => return Outcome::Skipped,
                };
                let (n, _) = match self.node(*new) {
                    Some(x) => x,
                    None => return Outcome::Skipped,
                };
                let (o, _) = match self.node(*old) {
                    Some(x) => x,
                    None => return Outcome::Skipped,
                };
                let rv = match recv_of(&r) {
                    Some(v) => v,
                    None => return Outcome::Skipped,
                };
                let res = guarded(|| each_recv!(rv, v => v.replace_child(n, &o)));
                self.finish_node(*out, doc, res)
            }
            Op::RemoveChild { recv, old, out } => {
                let (r, doc) = match self.node(*recv) {
                    Some(x) => x,
                    None => return Outcome::Skipped,
                };
                let (o, _) = match self.node(*old) {
                    Some(x) => x,
                    None => return Outcome::Skipped,
                };
                let rv = match recv_of(&r) {
                    Some(v) => v,
                    None => return Outcome::Skipped,
                };
                let res = guarded(|| each_recv!(rv, v => v.remove_child(&o)));
                self.finish_node(*out, doc, res)
            }
            Op::SetAttribute { el, name, value } => {
                let e = match self.node(*el) {
                    Some((XmlNode::Element(e), _)) => e,
                    _ => return Outcome::Skipped,
                };
                let res = guarded(|| e.set_attribute(name, value));
                self.finish_unit(res)
            }
            Op::RemoveAttribute { el, name } => {
                let e = match self.node(*el) {
                    Some((XmlNode::Element(e), _)) => e,
                    _ => return Outcome::Skipped,
                };
                let res = guarded(|| e.remove_attribute(name));
                self.finish_unit(res)
            }
            Op::SetAttributeNode { el, attr, out } => {
                let (e, doc) = match self.node(*el) {
                    Some((XmlNode::Element(e), d)) => (e, d),
                    _ => return Outcome::Skipped,
                };
                let a = match self.node(*attr) {
                    Some((XmlNode::Attribute(a), _)) => a,
                    _ => return Outcome::Skipped,
                };
                let res = guarded(|| e.set_attribute_node(a));
                self.finish_opt_attr(*out, doc, res)
            }
            Op::MapSetNamedItem { map, attr, out } => {
                let a = match self.node(*attr) {
                    Some((XmlNode::Attribute(a), _)) => a,
                    _ => return Outcome::Skipped,
                };
                let (res, doc) = match self.slots.get(*map).and_then(|v| v.as_ref()) {
                    Some(RSlot::Map { map, doc, .. }) => (guarded(|| map.set_named_item(a)), *doc),
                    _ => return Outcome::Skipped,
                };
                self.finish_opt_attr(*out, doc, res)
            }
            Op::RemoveAttributeNode { el, attr, out } => {
                let (e, doc) = match self.node(*el) {
                    Some((XmlNode::Element(e), d)) => (e, d),
                    _ => return Outcome::Skipped,
                };
                let a = match self.node(*attr) {
                    Some((XmlNode::Attribute(a), _)) => a,
                    _ => return Outcome::Skipped,
                };
                let res = guarded(|| e.remove_attribute_node(a).map(|v| v.as_node()));
                self.finish_node(*out, doc, res)
            }
            Op::MapRemoveNamedItem { map, name, out } => {
                let (res, doc) = match self.slots.get(*map).and_then(|v| v.as_ref()) {
                    Some(RSlot::Map { map, doc, .. }) => (guarded(|| map.remove_named_item(name).map(|v| v.as_node())), *doc),
                    _ => return Outcome::Skipped,
                };
                self.finish_node(*out, doc, res)
            }
            Op::SetValue { node, value } => {
                let (n, _) = match self.node(*node) {
                    Some(x) => x,
                    None => return Outcome::Skipped,
                };
                let res = match &n {
                    XmlNode::Attribute(a) => guarded(|| a.set_value(value)),
                    _ => {
                        let rv = match recv_of(&n) {
                            Some(v) => v,
                            None => return Outcome::Skipped,
                        };
                        guarded(|| each_recv!(rv, v => v.set_node_value(value)))
                    }
                };
                self.finish_unit(res)
            }
            Op::CreateElement { doc, name, out } => {
                let d = self.docs[*doc].dom.clone();
                let res = guarded(|| d.create_element(name).map(|v| v.as_node()));
                self.finish_node(*out, *doc, res)
            }
            Op::CreateText { doc, data, out } => {
                let d = self.docs[*doc].dom.clone();
                let res = guarded(|| Ok(d.create_text_node(data).as_node()));
                self.finish_node(*out, *doc, res)
            }
            Op::CreateComment { doc, data, out } => {
                let d = self.docs[*doc].dom.clone();
                let res = guarded(|| Ok(d.create_comment(data).as_node()));
                self.finish_node(*out, *doc, res)
            }
            Op::CreateCData { doc, data, out } => {
                let d = self.docs[*doc].dom.clone();
                let res = guarded(|| Ok(d.create_cdata_section(data).as_node()));
                self.finish_node(*out, *doc, res)
            }
            Op::CreatePI { doc, target, data, out } => {
                let d = self.docs[*doc].dom.clone();
                let res = guarded(|| d.create_processing_instruction(target, data).map(|v| v.as_node()));
                self.finish_node(*out, *doc, res)
            }
            Op::CreateAttr { doc, name, out } => {
                let d = self.docs[*doc].dom.clone();
                let res = guarded(|| d.create_attribute(name).map(|v| v.as_node()));
                self.finish_node(*out, *doc, res)
            }
            Op::CreateEntRef { doc, name, out } => {
                let d = self.docs[*doc].dom.clone();
                let res = guarded(|| d.create_entity_reference(name).map(|v| v.as_node()));
                self.finish_node(*out, *doc, res)
            }
            Op::CreateFragment { doc, out } => {
                let d = self.docs[*doc].dom.clone();
                let res = guarded(|| Ok(d.create_document_fragment().as_node()));
                match res {
                    Err(p) => Outcome::Panic(p),
                    Ok(Err(e)) => {
                        let e: DomError = e;
                        Outcome::Err(err_class(&e), format!("{:?}", e))
                    }
                    Ok(Ok(n)) => {
                        self.set(*out, RSlot::Node { node: n, doc: *doc });
                        Outcome::Ok(Ret::Node(None))
                    }
                }
            }
            Op::SetData { node, .. }
            | Op::AppendData { node, .. }
            | Op::InsertData { node, .. }
            | Op::DeleteData { node, .. }
            | Op::ReplaceData { node, .. } => {
                let (n, _) = match self.node(*node) {
                    Some(x) => x,
                    None => return Outcome::Skipped,
                };
                fn go<T: CharacterDataMut>(t: &T, op: &Op) -> DR<()> {
                    match op {
                        Op::SetData { data, .. } => t.set_data(data),
                        Op::AppendData { data, .. } => t.append_data(data),
                        Op::InsertData { off, data, .. } => t.insert_data(*off, data),
                        Op::DeleteData { off, cnt, .. } => t.delete_data(*off, *cnt),
                        Op::ReplaceData { off, cnt, data, .. } => t.replace_data(*off, *cnt, data),
                        _ => unreachable!(),
                    }
                }
                let res = match &n {
                    XmlNode::Text(t) => guarded(|| go(t, &step.op)),
                    XmlNode::Comment(t) => guarded(|| go(t, &step.op)),
                    XmlNode::CData(t) => guarded(|| go(t, &step.op)),
                    _ => return Outcome::Skipped,
                };
                self.finish_unit(res)
            }
            Op::Substring { node, off, cnt } => {
                let (n, _) = match self.node(*node) {
                    Some(x) => x,
                    None => return Outcome::Skipped,
                };
                let res = match &n {
                    XmlNode::Text(t) => guarded(|| t.substring_data(*off, *cnt)),
                    XmlNode::Comment(t) => guarded(|| t.substring_data(*off, *cnt)),
                    XmlNode::CData(t) => guarded(|| t.substring_data(*off, *cnt)),
                    XmlNode::ExpandedText(t) => guarded(|| t.substring_data(*off, *cnt)),
                    _ => return Outcome::Skipped,
                };
                match res {
                    Err(p) => Outcome::Panic(p),
                    Ok(Err(e)) => Outcome::Err(err_class(&e), format!("{:?}", e)),
                    Ok(Ok(s)) => Outcome::Ok(Ret::Str(s)),
                }
            }
            Op::SplitText { node, off, out } => {
                let (n, doc) = match self.node(*node) {
                    Some(x) => x,
                    None => return Outcome::Skipped,
                };
                let res = match &n {
                    XmlNode::Text(t) => guarded(|| t.split_text(*off).map(|v| v.as_node())),
                    XmlNode::CData(t) => guarded(|| t.split_text(*off).map(|v| v.as_node())),
                    _ => return Outcome::Skipped,
                };
                self.finish_node(*out, doc, res)
            }
            Op::Normalize { el } => {
                let (n, _) = match self.node(*el) {
                    Some(x) => x,
                    None => return Outcome::Skipped,
                };
                let res = match &n {
                    XmlNode::Element(e) => guarded(|| {
                        e.normalize();
                        Ok(())
                    }),
                    _ => return Outcome::Skipped,
                };
                self.finish_unit(res)
            }
            Op::Nav { node, which, out } => {
                let (n, doc) = match self.node(*node) {
                    Some(x) => x,
                    None => return Outcome::Skipped,
                };
                let res = guarded(|| match which {
                    NavKind::Parent => n.parent_node(),
                    NavKind::First => n.first_child(),
                    NavKind::Last => n.last_child(),
                    NavKind::Prev => n.previous_sibling(),
                    NavKind::Next => n.next_sibling(),
                    NavKind::DocElement => match &n {
                        XmlNode::Document(d) => d.document_element().ok().map(|e| e.as_node()),
                        _ => None,
                    },
                    NavKind::OwnerDoc => n.owner_document().map(|d| d.as_node()),
                });
                self.finish_opt_node(*out, doc, res)
            }
            Op::ChildIter { node, out } => {
                let (n, doc) = match self.node(*node) {
                    Some(x) => x,
                    None => return Outcome::Skipped,
                };
                let res = guarded(|| n.child_nodes().iter().collect::<Vec<XmlNode>>());
                match res {
                    Err(p) => Outcome::Panic(p),
                    Ok(v) => {
                        let keys = v.iter().map(|x| Key { doc, id: x.id() }).collect();
                        self.set(*out, RSlot::Vec { nodes: v, doc });
                        Outcome::Ok(Ret::Nodes(keys))
                    }
                }
            }
            Op::ChildList { node, out } => {
                let (n, doc) = match self.node(*node) {
                    Some(x) => x,
                    None => return Outcome::Skipped,
                };
                let res = guarded(|| n.child_nodes());
                match res {
                    Err(p) => Outcome::Panic(p),
                    Ok(l) => {
                        self.set(*out, RSlot::List { list: l, of: n, doc });
                        Outcome::Ok(Ret::Unit)
                    }
                }
            }
            Op::AttrMap { node, out } => {
                let (n, doc) = match self.node(*node) {
                    Some(x) => x,
                    None => return Outcome::Skipped,
                };
                let res = guarded(|| n.attributes());
                match res {
                    Err(p) => Outcome::Panic(p),
                    Ok(Some(m)) => {
                        self.set(*out, RSlot::Map { map: m, of: n, doc });
                        Outcome::Ok(Ret::Unit)
                    }
                    Ok(None) => Outcome::Ok(Ret::Node(None)),
                }
            }
            Op::ListItem { list, idx, out } => {
                let (res, doc) = match self.slots.get(*list).and_then(|v| v.as_ref()) {
                    Some(RSlot::List { list, doc, .. }) => (guarded(|| list.item(*idx)), *doc),
                    _ => return Outcome::Skipped,
                };
                self.finish_opt_node(*out, doc, res)
            }
            Op::VecItem { vec, idx, out } => {
                let (n, doc) = match self.slots.get(*vec).and_then(|v| v.as_ref()) {
                    Some(RSlot::Vec { nodes, doc }) => (nodes.get(*idx).cloned(), *doc),
                    _ => return Outcome::Skipped,
                };
                self.finish_opt_node(*out, doc, Ok(n))
            }
            Op::MapItem { map, idx, out } => {
                let (res, doc) = match self.slots.get(*map).and_then(|v| v.as_ref()) {
                    Some(RSlot::Map { map, doc, .. }) => (guarded(|| map.item(*idx).map(|a| a.as_node())), *doc),
                    _ => return Outcome::Skipped,
                };
                self.finish_opt_node(*out, doc, res)
            }
            Op::MapGet { map, name, out } => {
                let (res, doc) = match self.slots.get(*map).and_then(|v| v.as_ref()) {
                    Some(RSlot::Map { map, doc, .. }) => (guarded(|| map.get_named_item(name).map(|a| a.as_node())), *doc),
                    _ => return Outcome::Skipped,
                };
                self.finish_opt_node(*out, doc, res)
            }
            Op::GetAttrNode { el, name, out } => {
                let (e, doc) = match self.node(*el) {
                    Some((XmlNode::Element(e), d)) => (e, d),
                    _ => return Outcome::Skipped,
                };
                let res = guarded(|| e.get_attribute_node(name).map(|a| a.as_node()));
                self.finish_opt_node(*out, doc, res)
            }
            Op::ByTag { node, name, out } => {
                let (n, doc) = match self.node(*node) {
                    Some(x) => x,
                    None => return Outcome::Skipped,
                };
                let res = guarded(|| match &n {
                    XmlNode::Document(d) => Some(Document::get_elements_by_tag_name(d, name).iter().collect::<Vec<XmlNode>>()),
                    XmlNode::Element(e) => Some(Element::get_elements_by_tag_name(e, name).iter().collect::<Vec<XmlNode>>()),
                    _ => None,
                });
                match res {
                    Err(p) => Outcome::Panic(p),
                    Ok(None) => Outcome::Skipped,
                    Ok(Some(v)) => {
                        let keys = v.iter().map(|x| Key { doc, id: x.id() }).collect();
                        self.set(*out, RSlot::Vec { nodes: v, doc });
                        Outcome::Ok(Ret::Nodes(keys))
                    }
                }
            }
            Op::TagList { node, name, out } => {
                let (n, doc) = match self.node(*node) {
                    Some(x) => x,
                    None => return Outcome::Skipped,
                };
                let res = guarded(|| match &n {
                    XmlNode::Document(d) => Some(Document::get_elements_by_tag_name(d, name)),
                    XmlNode::Element(e) => Some(Element::get_elements_by_tag_name(e, name)),
                    _ => None,
                });
                match res {
                    Err(p) => Outcome::Panic(p),
                    Ok(None) => Outcome::Skipped,
                    Ok(Some(list)) => {
                        self.set(*out, RSlot::TagList { list, of: n, doc });
                        Outcome::Ok(Ret::Unit)
                    }
                }
            }
            Op::TagListRead { list, out } => {
                let (res, doc) = match self.slots.get(*list).and_then(|v| v.as_ref()) {
                    Some(RSlot::TagList { list, doc, .. }) => (
                        guarded(|| {
                            let n = list.length();
                            let by_item: Vec<Option<XmlNode>> = (0..n).map(|i| list.item(i)).collect();
                            let by_iter: Vec<XmlNode> = list.iter().collect();
                            (n, by_item, by_iter, list.item(n).is_some())
                        }),
                        *doc,
                    ),
                    _ => return Outcome::Skipped,
                };
                match res {
                    Err(p) => Outcome::Panic(p),
                    Ok((n, by_item, by_iter, beyond)) => {
                        let a: Vec<Option<usize>> = by_item.iter().map(|x| x.as_ref().map(|v| v.id())).collect();
                        let b: Vec<Option<usize>> = by_iter.iter().map(|v| Some(v.id())).collect();
                        if a != b || beyond {
                            return Outcome::Panic(format!("live element list is inconsistent with itself: length {} item(i) {:?} iter {:?} item(length) present: {}", n, a, b, beyond));
                        }
                        let keys = by_iter.iter().map(|x| Key { doc, id: x.id() }).collect();
                        self.set(*out, RSlot::Vec { nodes: by_iter, doc });
                        Outcome::Ok(Ret::Nodes(keys))
                    }
                }
            }
            Op::Touch { node } => {
                let (n, _) = match self.node(*node) {
                    Some(x) => x,
                    None => return Outcome::Skipped,
                };
                let res = guarded(|| {
                    let o = n.order();
                    let _ = n.node_name();
                    let _ = n.node_value();
                    let _ = n.has_child();
                    o
                });
                match res {
                    Err(p) => Outcome::Panic(p),
                    Ok(o) => Outcome::Ok(Ret::Len(o)),
                }
            }
            Op::DocRoot { doc, out } => {
                if *doc >= self.docs.len() {
                    return Outcome::Skipped;
                }
                let n = self.docs[*doc].dom.as_node();
                let k = self.put_node(*out, &n, *doc);
                Outcome::Ok(Ret::Node(Some(k)))
            }
            Op::Drop { slot } => {
                self.clear(*slot);
                Outcome::Ok(Ret::Unit)
            }
            Op::DropAllBut { keep } => {
                for i in 0..self.slots.len() {
                    if !keep.contains(&i) {
                        if let Some(RSlot::Ctx { .. }) = self.slots[i] {
                            continue;
                        }
                        self.slots[i] = None;
                    }
                }
                Outcome::Ok(Ret::Unit)
            }
            Op::NewCtx { out, ns } => {
                let ctx = make_ctx(ns);
                self.set(*out, RSlot::Ctx { ctx, ns: ns.clone() });
                Outcome::Ok(Ret::Unit)
            }
            Op::CtxNs { ctx, prefix, uri } => {
                match self.slots.get_mut(*ctx).and_then(|v| v.as_mut()) {
                    Some(RSlot::Ctx { ctx: c, ns }) => {
                        let p = if prefix.is_empty() { None } else { Some(prefix.as_str()) };
                        ns.retain(|(q, _)| q != prefix);
                        if uri.is_empty() {
                            c.remove_ns(p);
                        } else {
                            c.add_ns(p, uri);
                            ns.push((prefix.clone(), uri.clone()));
                        }
                        Outcome::Ok(Ret::Unit)
                    }
                    _ => Outcome::Skipped,
                }
            }
            Op::Query { ctx, doc, expr, out } => {
                if *doc >= self.docs.len() {
                    return Outcome::Skipped;
                }
                let dom = self.docs[*doc].dom.clone();
                let mut taken = match self.slots.get_mut(*ctx).and_then(|v| v.take()) {
                    Some(RSlot::Ctx { ctx, ns }) => (ctx, ns),
                    Some(other) => {
                        self.slots[*ctx] = Some(other);
                        return Outcome::Skipped;
                    }
                    None => return Outcome::Skipped,
                };
                let (qv, nodes) = run_query(&dom, expr, &mut taken.0, *doc);
                self.slots[*ctx] = Some(RSlot::Ctx { ctx: taken.0, ns: taken.1 });
                if let Some(nodes) = nodes {
                    self.set(*out, RSlot::Vec { nodes, doc: *doc });
                }
                Outcome::Ok(Ret::Q(qv))
            }
            Op::Checkpoint { .. } | Op::Restart { .. } | Op::Reparse { .. } | Op::Probe { .. } => Outcome::Ok(Ret::Unit),
            Op::DtMap { doc, which, name } => {
                use xml_dom::DocumentType;
                if *doc >= self.docs.len() {
                    return Outcome::Skipped;
                }
                let dt = match self.docs[*doc].dom.doc_type() {
                    Some(dt) => dt,
                    None => return Outcome::Skipped,
                };
                let res: Result<DR<()>, String> = guarded(|| match which {
                    0 => {
                        let m = dt.entities();
                        match m.get_named_item(name).or_else(|| m.item(0)) {
                            Some(e) => m.set_named_item(e).map(|_| ()),
                            None => m.remove_named_item(name).map(|_| ()),
                        }
                    }
                    1 => dt.entities().remove_named_item(name).map(|_| ()),
                    2 => {
                        let m = dt.notations();
                        match m.get_named_item(name).or_else(|| m.item(0)) {
                            Some(e) => m.set_named_item(e).map(|_| ()),
                            None => m.remove_named_item(name).map(|_| ()),
                        }
                    }
                    _ => dt.notations().remove_named_item(name).map(|_| ()),
                });
                self.finish_unit(res)
            }
        }
    }

    fn finish_opt_node(&mut self, out: S, doc: usize, r: Result<Option<XmlNode>, String>) -> Outcome {
        match r {
            Err(p) => Outcome::Panic(p),
            Ok(None) => Outcome::Ok(Ret::Node(None)),
            Ok(Some(n)) => {
                let k = self.put_node(out, &n, doc);
                Outcome::Ok(Ret::Node(Some(k)))
            }
        }
    }

    fn finish_opt_attr(&mut self, out: S, doc: usize, r: Result<DR<Option<XmlAttr>>, String>) -> Outcome {
        match r {
            Err(p) => Outcome::Panic(p),
            Ok(Err(e)) => Outcome::Err(err_class(&e), format!("{:?}", e)),
            Ok(Ok(None)) => Outcome::Ok(Ret::Node(None)),
            Ok(Ok(Some(a))) => {
                let k = self.put_node(out, &a.as_node(), doc);
                Outcome::Ok(Ret::Node(Some(k)))
            }
        }
    }

    // ------------------------------------------------------------------------------------------
    // observation

    /// Every handle a caller currently holds, with the document it belongs to.
    pub fn held_handles(&self) -> Vec<(XmlNode, usize)> {
        let mut v = vec![];
        for s in self.slots.iter().flatten() {
            match s {
                RSlot::Node { node, doc } => v.push((node.clone(), *doc)),
                RSlot::Vec { nodes, doc } => {
                    for n in nodes {
                        v.push((n.clone(), *doc));
                    }
                }
                RSlot::List { of, doc, .. } => v.push((of.clone(), *doc)),
                RSlot::TagList { of, doc, .. } => v.push((of.clone(), *doc)),
                RSlot::Map { of, doc, .. } => v.push((of.clone(), *doc)),
                RSlot::Ctx { .. } => {}
            }
        }
        v
    }

    /// Iterative, cycle-safe traversal through public accessors only.
    /// Returns the observation and the C12 failures met while traversing.
    pub fn observe(&self, limit: usize) -> (ObsMap, Vec<Fail>) {
        let mut obs = ObsMap::new();
        let mut fails: Vec<Fail> = vec![];
        let r = guarded(|| self.observe_inner(limit, &mut obs, &mut fails));
        if let Err(p) = r {
            fails.push(Fail::new("C12", "accessor-panic", format!("navigation accessor panicked: {}", p)));
        }
        (obs, fails)
    }

    fn observe_inner(&self, limit: usize, obs: &mut ObsMap, fails: &mut Vec<Fail>) {
        let mut visited: BTreeSet<Key> = BTreeSet::new();
        let mut starts: Vec<(XmlNode, usize)> = vec![];
        for (i, d) in self.docs.iter().enumerate() {
            starts.push((d.dom.as_node(), i));
        }
        starts.extend(self.held_handles());

        // climb to the top of each start handle
        let mut tops: Vec<(XmlNode, usize)> = vec![];
        let mut top_keys: BTreeSet<Key> = BTreeSet::new();
        for (n, doc) in &starts {
            if matches!(n, XmlNode::DocumentFragment(_) | XmlNode::Namespace(_) | XmlNode::ExpandedText(_)) {
                continue;
            }
            let mut cur = n.clone();
            let mut seen: BTreeSet<usize> = BTreeSet::new();
            seen.insert(cur.id());
            let mut steps = 0;
            loop {
                let p = cur.parent_node();
                match p {
                    None => break,
                    Some(p) => {
                        if !seen.insert(p.id()) {
                            fails.push(Fail::new(
                                "C12",
                                "parent-cycle",
                                format!("following parent_node from #{} returns to #{}", n.id(), p.id()),
                            ));
                            break;
                        }
                        cur = p;
                    }
                }
                steps += 1;
                if steps > limit {
                    fails.push(Fail::new("C12", "parent-cycle", format!("parent chain from #{} longer than {}", n.id(), limit)));
                    break;
                }
            }
            let k = Key { doc: *doc, id: cur.id() };
            if top_keys.insert(k) {
                tops.push((cur, *doc));
            }
        }
        // documents first, attributes last
        tops.sort_by_key(|(n, _)| match n {
            XmlNode::Document(_) => 0,
            XmlNode::Attribute(_) => 2,
            _ => 1,
        });

        for (top, doc) in tops {
            let attached = matches!(top, XmlNode::Document(_));
            let topk = Key { doc, id: top.id() };
            if visited.contains(&topk) {
                continue;
            }
            let mut stack: Vec<XmlNode> = vec![top];
            while let Some(n) = stack.pop() {
                let key = Key { doc, id: n.id() };
                if !visited.insert(key) {
                    fails.push(Fail::new("C12", "node-twice", format!("node {} is reachable twice (or beneath itself)", key)));
                    continue;
                }
                if visited.len() > limit {
                    fails.push(Fail::new("C12", "node-twice", format!("traversal exceeded {} nodes", limit)));
                    return;
                }
                let list = n.child_nodes();
                let len = list.length();
                let mut kids: Vec<XmlNode> = vec![];
                for i in 0..len {
                    if let Some(c) = list.item(i) {
                        kids.push(c);
                    }
                }
                let iter_ids: Vec<usize> = list.iter().map(|c| c.id()).collect();
                let kid_ids: Vec<usize> = kids.iter().map(|c| c.id()).collect();
                if iter_ids != kid_ids {
                    fails.push(Fail::new(
                        "C12",
                        "list-vs-iter",
                        format!("child_nodes().item(i) {:?} and child_nodes().iter() {:?} disagree at {}", kid_ids, iter_ids, key),
                    ));
                }
                let mut prevs = vec![];
                let mut nexts = vec![];
                for c in &kids {
                    prevs.push(c.previous_sibling().map(|x| Key { doc, id: x.id() }));
                    nexts.push(c.next_sibling().map(|x| Key { doc, id: x.id() }));
                    let cp = c.parent_node().map(|x| Key { doc, id: x.id() });
                    if cp != Some(key) {
                        fails.push(Fail::new(
                            "C12",
                            "child-parent",
                            format!(
                                "node {} is listed in child_nodes of {} but reports parent {}",
                                Key { doc, id: c.id() },
                                key,
                                cp.map(|k| k.to_string()).unwrap_or("none".into())
                            ),
                        ));
                    }
                }
                let mut attrs: Vec<AttrObs> = vec![];
                let mut attr_nodes: Vec<XmlNode> = vec![];
                if let Some(map) = n.attributes() {
                    let alen = map.length();
                    for i in 0..alen {
                        if let Some(a) = map.item(i) {
                            let an = a.as_node();
                            attrs.push(AttrObs {
                                qname: guarded(|| format!("{}", a)).ok().and_then(|s| s.split('=').next().map(|q| q.trim().to_string())).unwrap_or_default(),
                                name: a.name(),
                                value: a.value().unwrap_or_else(|e| format!("<ERR {}>", e)),
                                specified: a.specified(),
                                key: Key { doc, id: an.id() },
                                order: an.order(),
                            });
                            if an.id() != 0 {
                                attr_nodes.push(an);
                            } else {
                                // an attribute present through a DTD default: its value pieces are its children
                                let pieces: Vec<XmlNode> = an.child_nodes().iter().collect();
                                for c in pieces {
                                    let ok = matches!(c.parent_node(), Some(XmlNode::Attribute(ref p)) if p.name() == a.name());
                                    if !ok {
                                        fails.push(Fail::new(
                                            "C12",
                                            "defaulted_attr_child_parent",
                                            format!(
                                                "the value piece {:?} listed in child_nodes of the defaulted attribute {} of {} reports parent {}",
                                                c.node_value().ok().flatten().unwrap_or_default(),
                                                a.name(),
                                                key,
                                                c.parent_node().map(|p| format!("{:?} #{}", p.node_type(), p.id())).unwrap_or("none".into())
                                            ),
                                        ));
                                        break;
                                    }
                                }
                            }
                        }
                    }
                }
                attrs.sort_by(|a, b| (&a.name, a.key).cmp(&(&b.name, b.key)));
                let o = NodeObs {
                    key,
                    kind: okind(&n),
                    name: n.node_name(),
                    value: match n.node_value() {
                        Ok(v) => v,
                        Err(e) => Some(format!("<ERR {}>", e)),
                    },
                    parent: n.parent_node().map(|x| Key { doc, id: x.id() }),
                    children: kids.iter().map(|c| Key { doc, id: c.id() }).collect(),
                    attrs,
                    first: n.first_child().map(|x| Key { doc, id: x.id() }),
                    last: n.last_child().map(|x| Key { doc, id: x.id() }),
                    has_child: n.has_child(),
                    prevs,
                    nexts,
                    order: n.order(),
                    attached,
                    ref_value: match &n {
                        XmlNode::EntityReference(r) => Some(r.value().unwrap_or_else(|e| format!("<ERR {}>", e))),
                        _ => None,
                    },
                    prefix: match &n {
                        XmlNode::Element(e) => match xml_dom::AsExpandedName::as_expanded_name(e) {
                            Ok(Some((_, Some(p), _))) if p != "xmlns" => Some(p),
                            _ => None,
                        },
                        _ => None,
                    },
                };
                obs.insert(key, o);
                for c in kids.into_iter().rev() {
                    stack.push(c);
                }
                for a in attr_nodes.into_iter().rev() {
                    stack.push(a);
                }
            }
        }

        // every handle must have been reached from its own top
        for (n, doc) in &starts {
            if matches!(n, XmlNode::DocumentFragment(_) | XmlNode::Namespace(_) | XmlNode::ExpandedText(_)) {
                continue;
            }
            if n.id() == 0 {
                continue;
            }
            if self.docs[*doc].expanded && matches!(n, XmlNode::Text(_) | XmlNode::CData(_) | XmlNode::EntityReference(_)) {
                // in the text-expanded view the child list holds the merged node of the run, not the raw piece a
                // mutator returned: the piece names a parent that does not list it and has no siblings
                if let Some(XmlNode::Element(p)) = n.parent_node() {
                    let listed = p.as_node().child_nodes().iter().any(|c| c.id() == n.id());
                    let sibs = n.previous_sibling().is_some() || n.next_sibling().is_some();
                    let alone = p.as_node().child_nodes().length() <= 1;
                    if !listed && !sibs && !alone {
                        fails.push(Fail::new(
                            "C12",
                            "expanded_raw_piece_navigation",
                            format!("the raw piece #{} (text-expanded document) reports parent #{} but the parent's child list does not contain it and it reports no siblings", n.id(), p.as_node().id()),
                        ));
                    }
                    continue;
                }
            }
            let k = Key { doc: *doc, id: n.id() };
            if !visited.contains(&k) {
                fails.push(Fail::new(
                    "C12",
                    "parent-without-child",
                    format!(
                        "node {} reports parent {} but is not reachable through child lists from its topmost ancestor",
                        k,
                        n.parent_node().map(|p| format!("#{}", p.id())).unwrap_or("none".into())
                    ),
                ));
            }
        }
    }

    pub fn serialize(&self, doc: usize) -> Result<String, String> {
        let d = self.docs[doc].dom.clone();
        guarded(|| format!("{}", d))
    }
}

pub fn make_ctx(ns: &[(String, String)]) -> XCtx {
    let mut ctx = XCtx::default();
    for (p, u) in ns {
        if p.is_empty() {
            ctx.add_ns(None, u);
        } else {
            ctx.add_ns(Some(p.as_str()), u);
        }
    }
    ctx
}

pub fn run_query(dom: &XmlDocument, expr: &str, ctx: &mut XCtx, doc: usize) -> (QVal, Option<Vec<XmlNode>>) {
    let r = guarded(|| match xml_xpath::query(dom.clone(), expr, ctx) {
        Ok(v) => Ok(v),
        Err(e) => Err(format!("{}", e)),
    });
    match r {
        Err(p) => (QVal::Panic(p), None),
        Ok(Err(e)) => {
            // class of the error: the variant name up to the first '('
            let class = e.split('(').next().unwrap_or("").to_string();
            let class = if e.starts_with("Eval(") {
                let inner = &e[5..];
                format!("Eval/{}", inner.split('(').next().unwrap_or("").trim_end_matches(')'))
            } else {
                class
            };
            (QVal::Err(class), None)
        }
        Ok(Ok(v)) => match v {
            XValue::Boolean(b) => (QVal::Bool(b), None),
            XValue::Number(n) => (QVal::Num(if n.is_nan() { f64::NAN.to_bits() } else { n.to_bits() }), None),
            XValue::Text(s) => (QVal::Str(s), None),
            XValue::Node(ns) => {
                let keys = ns.iter().map(|n| Key { doc, id: n.id() }).collect();
                (QVal::Nodes(keys), Some(ns))
            }
        },
    }
}

#[allow(dead_code)]
pub fn node_type_name(t: NodeType) -> &'static str {
    match t {
        NodeType::Element => "element",
        NodeType::Attribute => "attribute",
        NodeType::Text => "text",
        NodeType::CData => "cdata",
        NodeType::EntityReference => "entity-reference",
        NodeType::Entity => "entity",
        NodeType::PI => "pi",
        NodeType::Comment => "comment",
        NodeType::Document => "document",
        NodeType::DocumentType => "doctype",
        NodeType::DocumentFragment => "fragment",
        NodeType::Notation => "notation",
    }
}
