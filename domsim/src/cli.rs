//! Workload for clisim: cases for the real `xq` / `xe` binaries, with the expected result computed
//! on a small generator-side tree (never by XPath).  `domsim gen-cli` writes one case per line;
//! `domsim canon-batch` turns tool output into the canonical content used for comparison.

use crate::rng::Rng;
use crate::step::{dec, enc};
use crate::world::canon_doc_ns;
use xml_dom::{Node, NodeList, PrettyPrint, XmlNode};

#[derive(Clone, Debug)]
pub enum G {
    El { name: String, attrs: Vec<(String, String)>, kids: Vec<G>, ns: Option<String> },
    Text(String),
    CData(String),
    Comment(String),
    PI(String, String),
    CharRef(String, String),
    EntRef(String, String),
    /// document type declaration: (name, text as written)
    DocType(String, String),
}

const NAMES: &[&str] = &["a", "b", "c", "p:d"];
const ATTRS: &[&str] = &["x", "y", "id"];
/// general entities declared by the internal subset of some documents
const DECLARED: &[(&str, &str)] = &[("e1", "v1"), ("e2", "two  words é")];
const CH: &[&str] = &["a", "b", "é", "𝒳", "\u{301}", " ", "1", "z"];

fn local(q: &str) -> &str {
    q.rsplit(':').next().unwrap_or(q)
}

/// marks an attribute value of an *expected* tree that is exact (built from character references:
/// no white-space normalisation applies to it)
const EXACT: char = '\u{E000}';

fn norm_attr(s: &str) -> String {
    if let Some(exact) = s.strip_prefix(EXACT) {
        return exact.to_string();
    }
    s.chars().map(|c| if c == '\t' || c == '\n' || c == '\r' { ' ' } else { c }).collect()
}

pub struct CliGen<'a> {
    pub rng: &'a mut Rng,
    pub budget: usize,
    pub rich: bool,
    /// the document declares the general entities e1 and e2
    pub ents: bool,
}

impl<'a> CliGen<'a> {
    fn word(&mut self, lo: usize, hi: usize) -> String {
        let n = self.rng.range(lo, hi);
        let mut s = String::new();
        for _ in 0..n {
            s.push_str(self.rng.ps(CH));
        }
        s
    }

    fn text(&mut self) -> String {
        let mut s = self.word(1, 5);
        if self.rng.pct(10) {
            s.push_str(self.rng.ps(&["\t", "\n", "'", "\"", ">", "]", "-"]));
        }
        s
    }

    fn kids(&mut self, depth: usize) -> Vec<G> {
        let n = if depth >= 4 || self.budget == 0 { 0 } else { self.rng.below(5) };
        let mut v: Vec<G> = vec![];
        for _ in 0..n {
            if self.budget == 0 {
                break;
            }
            self.budget -= 1;
            let g = match self.rng.below(20) {
                0..=8 => self.element(depth + 1),
                9..=13 => {
                    if matches!(v.last(), Some(G::Text(_))) {
                        self.element(depth + 1)
                    } else {
                        G::Text(self.text())
                    }
                }
                14 => G::Comment(self.word(0, 4)),
                15 => G::PI(self.rng.ps(&["t", "u"]).to_string(), if self.rng.pct(40) { String::new() } else { self.word(1, 4).trim_start().to_string() }),
                16 | 17 => G::CData(format!("{}{}", self.word(0, 4), if self.rng.pct(30) { "<&" } else { "" })),
                18 => {
                    let (s, c) = *self.rng.pick(&[("&#233;", "é"), ("&#x1D4B3;", "𝒳"), ("&#38;", "&"), ("&#60;", "<"), ("&#x26;", "&"), ("&#x3C;", "<"), ("&#038;", "&"), ("&#0060;", "<"), ("&#x3e;", ">")]);
                    G::CharRef(s.to_string(), c.to_string())
                }
                _ => {
                    let (n, v) = if self.ents && self.rng.pct(70) {
                        *self.rng.pick(DECLARED)
                    } else {
                        *self.rng.pick(&[("amp", "&"), ("lt", "<"), ("gt", ">"), ("apos", "'"), ("quot", "\"")])
                    };
                    G::EntRef(n.to_string(), v.to_string())
                }
            };
            // two distinct nodes that are equal in every respect (structural equality is not identity)
            let twin = if matches!(g, G::El { .. }) && self.rng.pct(10) { Some(g.clone()) } else { None };
            v.push(g);
            if let Some(t) = twin {
                v.push(t);
            }
        }
        v
    }

    fn element(&mut self, depth: usize) -> G {
        let name = self.rng.ps(NAMES).to_string();
        let mut attrs: Vec<(String, String)> = vec![];
        if self.rng.pct(45) {
            for _ in 0..self.rng.range(1, 2) {
                let an = self.rng.ps(ATTRS).to_string();
                if attrs.iter().any(|(k, _)| *k == an) {
                    continue;
                }
                let mut v = self.word(0, 4);
                if self.rng.pct(10) {
                    v.push_str(self.rng.ps(&["\t", "'", ">", "&", "<", "\"", "a&b", "'\"", "&lt;"]));
                }
                attrs.push((an, v));
            }
        }
        let kids = self.kids(depth);
        let ns = if depth > 0 && self.rng.pct(8) { Some(self.rng.ps(&["urn:p2", "urn:p"]).to_string()) } else { None };
        G::El { name, attrs, kids, ns }
    }

    pub fn document(&mut self) -> (Vec<G>, G, Vec<G>, String) {
        let decl = match self.rng.below(5) {
            0 => "<?xml version=\"1.0\"?>".to_string(),
            1 => "<?xml version=\"1.0\" encoding=\"UTF-8\"?>".to_string(),
            _ => String::new(),
        };
        let mut pre = vec![];
        if self.rng.pct(15) {
            pre.push(G::Comment(self.word(1, 3)));
        }
        if self.rng.pct(10) {
            pre.push(G::PI("t".into(), "x".into()));
        }
        self.ents = self.rich && self.rng.pct(18);
        let root = match self.element(0) {
            G::El { name, attrs, kids, ns } => G::El { name, attrs, kids, ns },
            g => g,
        };
        if self.ents {
            if let G::El { name, .. } = &root {
                let mut t = format!("<!DOCTYPE {} [", name);
                for (n, v) in DECLARED {
                    t.push_str(&format!("<!ENTITY {} \"{}\">", n, v));
                }
                t.push_str("]>");
                pre.push(G::DocType(name.clone(), t));
            }
        }
        let mut post = vec![];
        if self.rng.pct(15) {
            post.push(G::Comment(self.word(1, 3)));
        }
        (pre, root, post, decl)
    }
}

pub fn render(g: &G, root: bool, out: &mut String) {
    match g {
        G::El { name, attrs, kids, ns } => {
            out.push('<');
            out.push_str(name);
            if root {
                out.push_str(" xmlns:p=\"urn:p\"");
                if let Some(d) = doc_dns() {
                    out.push_str(&format!(" xmlns=\"{}\"", d));
                }
            } else if let Some(u) = ns {
                out.push_str(&format!(" xmlns:p=\"{}\"", u.replace('&', "&amp;")));
            }
            for (k, v) in attrs {
                // `v` is the value the attribute denotes; written with the references it needs
                let esc = v.replace('&', "&amp;").replace('<', "&lt;");
                let (q, esc) = if esc.contains('"') && esc.contains('\'') {
                    ('"', esc.replace('"', "&quot;"))
                } else if esc.contains('"') {
                    ('\'', esc)
                } else {
                    ('"', esc)
                };
                out.push_str(&format!(" {}={}{}{}", k, q, esc, q));
            }
            if kids.is_empty() {
                out.push_str("/>");
            } else {
                out.push('>');
                for k in kids {
                    render(k, false, out);
                }
                out.push_str(&format!("</{}>", name));
            }
        }
        G::Text(t) => out.push_str(&t.replace('&', "&amp;").replace('<', "&lt;")),
        G::CData(t) => out.push_str(&format!("<![CDATA[{}]]>", t)),
        G::Comment(t) => out.push_str(&format!("<!--{}-->", t)),
        G::PI(t, d) => {
            if d.is_empty() {
                out.push_str(&format!("<?{}?>", t))
            } else {
                out.push_str(&format!("<?{} {}?>", t, d))
            }
        }
        G::CharRef(s, _) => out.push_str(s),
        G::EntRef(n, _) => out.push_str(&format!("&{};", n)),
        G::DocType(_, t) => out.push_str(t),
    }
}

/// `{namespace}local` of a name under the binding `cur` of the prefix `p` (the only prefix the generator uses)
fn expand_name(name: &str, cur: Option<&str>, dns: Option<&str>) -> String {
    match name.strip_prefix("p:") {
        Some(l) => match cur {
            Some(u) => format!("{{{}}}{}", u, l),
            None => format!("{{!unbound}}{}", l),
        },
        // an unprefixed element name is in the default namespace (attributes pass None)
        None => match dns {
            Some(d) => format!("{{{}}}{}", d, name),
            None => name.to_string(),
        },
    }
}

/// canonical content in the format of world::canon_doc_ns; `cur` is what the prefix `p` is bound to here
pub fn canon_kids(kids: &[G], cur: Option<&str>, dns: Option<&str>, out: &mut String) {
    let mut run: Option<String> = None;
    fn flush(run: &mut Option<String>, out: &mut String) {
        if let Some(r) = run.take() {
            if !r.is_empty() {
                out.push_str(&format!("T({:?})", r));
            }
        }
    }
    for k in kids {
        match k {
            G::Text(t) => run.get_or_insert_with(String::new).push_str(t),
            G::CharRef(_, c) => run.get_or_insert_with(String::new).push_str(c),
            G::EntRef(_, v) => run.get_or_insert_with(String::new).push_str(v),
            G::CData(t) => {
                flush(&mut run, out);
                out.push_str(&format!("C({:?})", t));
            }
            G::Comment(t) => {
                flush(&mut run, out);
                out.push_str(&format!("M({:?})", t));
            }
            G::PI(t, d) => {
                flush(&mut run, out);
                out.push_str(&format!("P({:?},{:?})", t, d));
            }
            G::DocType(n, _) => {
                flush(&mut run, out);
                // DocumentType::name() reports the local part, like Attr::name()
                out.push_str(&format!("D({:?})", local(n)));
            }
            G::El { name, attrs, kids, ns } => {
                flush(&mut run, out);
                let here: Option<&str> = match ns {
                    Some(u) => Some(u.as_str()),
                    None => cur,
                };
                out.push_str(&format!("E({:?}", expand_name(name, here, dns)));
                let mut a: Vec<(String, String)> = attrs.iter().map(|(k, v)| (expand_name(k, here, None), norm_attr(v))).collect();
                a.sort();
                for (k, v) in a {
                    out.push_str(&format!(" {}={:?}", k, v));
                }
                out.push('[');
                canon_kids(kids, here, dns, out);
                out.push_str("])");
            }
        }
    }
    flush(&mut run, out);
}

/// what the prefix `p` is bound to for the children of the node at `path` (the root element declares urn:p)
fn binding_at(root: &G, path: &[usize]) -> Option<String> {
    let mut cur = Some("urn:p".to_string());
    let mut g = root;
    for (depth, i) in path.iter().enumerate() {
        if let G::El { kids, ns, .. } = g {
            if depth > 0 {
                if let Some(u) = ns {
                    cur = Some(u.clone());
                }
            }
            match kids.get(*i) {
                Some(k) => g = k,
                None => break,
            }
        }
    }
    cur
}

fn string_value(g: &G, out: &mut String) {
    match g {
        G::El { kids, .. } => {
            for k in kids {
                string_value(k, out);
            }
        }
        G::Text(t) | G::CData(t) => out.push_str(t),
        G::CharRef(_, c) => out.push_str(c),
        G::EntRef(_, v) => out.push_str(v),
        _ => {}
    }
}

/// paths (child indexes among *all* children) of the elements with this qualified name, document order
/// `want_uri` is the namespace the caller binds the prefix of `name` to (None for unprefixed names)
fn named_paths_ns(g: &G, name: &str, want_uri: Option<&str>, cur_p: &str, path: &mut Vec<usize>, out: &mut Vec<Vec<usize>>) {
    if let G::El { name: n, kids, ns, .. } = g {
        let cur = match ns {
            Some(u) if !path.is_empty() => u.as_str(),
            _ => cur_p,
        };
        let matches = match want_uri {
            None => n == name,
            Some(u) => n == name && cur == u,
        };
        if matches {
            out.push(path.clone());
        }
        for (i, k) in kids.iter().enumerate() {
            path.push(i);
            named_paths_ns(k, name, want_uri, cur, path, out);
            path.pop();
        }
    }
}

fn named_paths(g: &G, name: &str, path: &mut Vec<usize>, out: &mut Vec<Vec<usize>>) {
    if !name.contains(':') && !PLAIN_MATCH.with(|c| *c.borrow()) {
        // the elements are in a default namespace the caller did not bind: a plain name test is in no namespace
        return;
    }
    let want = if name.contains(':') { Some(CALLER_URI.with(|c| c.borrow().clone())) } else { None };
    named_paths_ns(g, name, want.as_deref(), "urn:p", path, out);
}

thread_local! {
    /// the URI the caller binds its prefix to in the case being generated
    static CALLER_URI: std::cell::RefCell<String> = std::cell::RefCell::new("urn:p".to_string());
    /// whether an unprefixed name test of the caller reaches the document's unprefixed elements
    static PLAIN_MATCH: std::cell::RefCell<bool> = std::cell::RefCell::new(true);
    /// the default namespace the document element of the case being generated declares (if any)
    static DOC_DNS: std::cell::RefCell<Option<String>> = std::cell::RefCell::new(None);
}

fn doc_dns() -> Option<String> {
    DOC_DNS.with(|c| c.borrow().clone())
}

fn get<'x>(root: &'x G, path: &[usize]) -> Option<&'x G> {
    let mut cur = root;
    for i in path {
        match cur {
            G::El { kids, .. } => cur = kids.get(*i)?,
            _ => return None,
        }
    }
    Some(cur)
}

fn get_mut<'x>(root: &'x mut G, path: &[usize]) -> Option<&'x mut G> {
    let mut cur = root;
    for i in path {
        match cur {
            G::El { kids, .. } => cur = kids.get_mut(*i)?,
            _ => return None,
        }
    }
    Some(cur)
}

/// element-child index path (`/*[1]/*[2]`) to a path over all children
fn elem_path_to_path(root: &G, epath: &[usize]) -> Option<Vec<usize>> {
    let mut cur = root;
    let mut out = vec![];
    for e in epath {
        match cur {
            G::El { kids, .. } => {
                let mut n = 0;
                let mut found = None;
                for (i, k) in kids.iter().enumerate() {
                    if matches!(k, G::El { .. }) {
                        n += 1;
                        if n == *e {
                            found = Some(i);
                            break;
                        }
                    }
                }
                let i = found?;
                out.push(i);
                cur = &kids[i];
            }
            _ => return None,
        }
    }
    Some(out)
}

fn random_elem_path(rng: &mut Rng, root: &G) -> Vec<usize> {
    let mut cur = root;
    let mut ep = vec![];
    loop {
        let kids = match cur {
            G::El { kids, .. } => kids,
            _ => break,
        };
        let els: Vec<&G> = kids.iter().filter(|k| matches!(k, G::El { .. })).collect();
        if els.is_empty() || rng.pct(35) {
            break;
        }
        let i = rng.below(els.len());
        ep.push(i + 1);
        cur = els[i];
    }
    ep
}

fn max_preceding_siblings(root: &G) -> usize {
    fn walk(g: &G, best: &mut usize) {
        if let G::El { kids, .. } = g {
            let n = kids.iter().filter(|k| matches!(k, G::El { .. })).count();
            if n > 0 && n - 1 > *best {
                *best = n - 1;
            }
            for k in kids {
                walk(k, best);
            }
        }
    }
    let mut best = 0;
    walk(root, &mut best);
    best
}

/// an element-index path biased towards elements that have several element siblings before them
fn sibling_rich_elem_path(rng: &mut Rng, root: &G) -> Vec<usize> {
    fn walk(g: &G, ep: &mut Vec<usize>, out: &mut Vec<(usize, Vec<usize>)>) {
        if let G::El { kids, .. } = g {
            let mut n = 0;
            for k in kids {
                if matches!(k, G::El { .. }) {
                    n += 1;
                    ep.push(n);
                    out.push((n - 1, ep.clone()));
                    walk(k, ep, out);
                    ep.pop();
                }
            }
        }
    }
    let mut all = vec![];
    walk(root, &mut vec![], &mut all);
    for want in [2usize, 1] {
        let c: Vec<&(usize, Vec<usize>)> = all.iter().filter(|(b, _)| *b >= want).collect();
        if !c.is_empty() && rng.pct(80) {
            return rng.pick(&c).1.clone();
        }
    }
    random_elem_path(rng, root)
}

#[derive(Clone, Debug)]
pub struct Case {
    pub id: u64,
    pub tool: String,
    pub argv: Vec<String>,
    pub doc: String,
    /// "stdout" (exact bytes), "canon" (xe --no-indent), "canonws" (xe indented: modulo white space), "fail", "any"
    pub expect_kind: String,
    pub expect: String,
    pub gate: String,
    pub what: String,
    /// xq: canonical content of the selected nodes as the generator knows them (wrapped in `w`), or empty
    pub sel: String,
}

impl Case {
    pub fn to_line(&self) -> String {
        // arguments are joined by ',': a comma inside one is written as %2C
        let argv: Vec<String> = self.argv.iter().map(|a| enc(a).replace(',', "%2C")).collect();
        format!(
            "case id={} tool={} argv={} doc={} kind={} expect={} gate={} sel={} what={}",
            self.id,
            self.tool,
            argv.join(","),
            enc(&self.doc),
            self.expect_kind,
            enc(&self.expect),
            if self.gate.is_empty() { "-".to_string() } else { self.gate.clone() },
            enc(&self.sel),
            enc(&self.what)
        )
    }
}

/// the library's own serialisation of the nodes at `paths` (raw child indexes), obtained by navigation
fn serialise_targets(doc_text: &str, paths: &[Vec<usize>], attr: Option<&str>, text_runs: bool, indent: bool) -> Option<String> {
    use xml_dom::{Document, Element};
    let (rest, dom) = xml_dom::XmlDocument::from_raw(doc_text).ok()?;
    if !rest.is_empty() {
        return None;
    }
    let root = dom.document_element().ok()?;
    let mut out: Vec<u8> = vec![];
    for p in paths {
        let mut cur: XmlNode = xml_dom::AsNode::as_node(&root);
        for i in p {
            cur = cur.child_nodes().item(*i)?;
        }
        let mut emit = |n: &XmlNode, out: &mut Vec<u8>| {
            if indent {
                let _ = n.pretty(out);
                out.push(b'\n');
            } else {
                out.extend_from_slice(format!("{}\n", n).as_bytes());
            }
        };
        if let Some(a) = attr {
            if let XmlNode::Element(e) = &cur {
                if let Some(an) = e.get_attribute_node(local(a)) {
                    emit(&xml_dom::AsNode::as_node(&an), &mut out);
                }
            }
        } else if text_runs {
            // merged-text view: each maximal run of text-like children is one node
            let kids: Vec<XmlNode> = cur.child_nodes().iter().collect();
            let mut run: Vec<XmlNode> = vec![];
            let flush = |run: &mut Vec<XmlNode>, out: &mut Vec<u8>| {
                if !run.is_empty() {
                    for n in run.iter() {
                        if indent {
                            let _ = n.pretty(out);
                        } else {
                            out.extend_from_slice(format!("{}", n).as_bytes());
                        }
                    }
                    out.push(b'\n');
                    run.clear();
                }
            };
            for k in kids {
                if matches!(k, XmlNode::Text(_) | XmlNode::CData(_) | XmlNode::EntityReference(_)) {
                    run.push(k);
                } else {
                    flush(&mut run, &mut out);
                }
            }
            flush(&mut run, &mut out);
        } else {
            emit(&cur, &mut out);
        }
    }
    String::from_utf8(out).ok()
}

/// the library's own serialisation of the whole document, as xq prints a selected document node
fn serialise_document(doc_text: &str, indent: bool) -> Option<String> {
    let (rest, dom) = xml_dom::XmlDocument::from_raw(doc_text).ok()?;
    if !rest.is_empty() {
        return None;
    }
    let mut out: Vec<u8> = vec![];
    if indent {
        let _ = dom.pretty(&mut out);
        out.push(b'\n');
    } else {
        out.extend_from_slice(format!("{}\n", dom).as_bytes());
    }
    String::from_utf8(out).ok()
}

pub fn gen_case(seed: u64, id: u64) -> Case {
    let mut rng = Rng::new(crate::rng::mix(seed ^ 0xC17, id));
    let budget = rng.range(2, 30);
    // a quarter of the documents put their unprefixed elements into a default namespace
    let dns: Option<&'static str> = if rng.pct(25) { Some("urn:d") } else { None };
    DOC_DNS.with(|c| *c.borrow_mut() = dns.map(String::from));
    // how the caller addresses them: 0,1 `--setns xmlns=urn:d` and plain names; 2,3 `--setns xmlns:n=urn:d` and
    // `n:name`; 4 no binding (plain names then match nothing)
    let dmode = if dns.is_some() { rng.below(5) } else { 9 };
    let plain_names_match = dns.is_none() || dmode < 4;
    let gen_doc = |rng: &mut Rng, budget: usize| -> (Vec<G>, G, Vec<G>, String) {
        let (pre, root, post, decl) = {
            let mut g = CliGen { rng, budget, rich: true, ents: false };
            g.document()
        };
        let mut doc = decl.clone();
        for p in &pre {
            render(p, false, &mut doc);
        }
        render(&root, true, &mut doc);
        for p in &post {
            render(p, false, &mut doc);
        }
        (pre, root, post, doc)
    };
    let (mut pre, mut root, mut post, mut doc) = gen_doc(&mut rng, budget);
    // some cases want a document in which some element has several element siblings before it
    let sibling_family = rng.pct(8);
    if sibling_family {
        for _ in 0..12 {
            if max_preceding_siblings(&root) >= 2 {
                break;
            }
            let b = rng.range(10, 30);
            let d = gen_doc(&mut rng, b);
            pre = d.0;
            root = d.1;
            post = d.2;
            doc = d.3;
        }
    }
    let tool = if rng.pct(50) { "xq" } else { "xe" };
    let indent = rng.pct(50);
    let mut argv: Vec<String> = vec![];
    let mut gate = String::new();
    let mut what;
    // caller-side namespace bindings: the caller's prefix need not be the document's
    let caller_p = if rng.pct(50) { "p" } else { "zz" };
    // the caller may bind that prefix to another namespace than the document does: then nothing (or other nodes) match
    let caller_uri = match rng.below(10) {
        0 | 1 => "urn:p2",
        2 => "urn:other",
        _ => "urn:p",
    };
    CALLER_URI.with(|c| *c.borrow_mut() = caller_uri.to_string());
    let mut need_ns = false;

    // selection
    let sel = rng.below(if tool == "xq" { 10 } else { 8 });
    let mut paths: Vec<Vec<usize>> = vec![];
    let mut attr: Option<String> = None;
    let mut text_runs = false;
    let mut scalar: Option<String> = None;
    let mut expr;
    let qname_for = |n: &str, caller_p: &str| -> String {
        if let Some(l) = n.strip_prefix("p:") {
            format!("{}:{}", caller_p, l)
        } else if dns.is_some() && (dmode == 2 || dmode == 3) {
            format!("n:{}", n)
        } else {
            n.to_string()
        }
    };
    PLAIN_MATCH.with(|c| *c.borrow_mut() = plain_names_match);
    match sel {
        0 | 1 | 2 => {
            let ep = random_elem_path(&mut rng, &root);
            expr = String::from("/*");
            for e in &ep {
                expr.push_str(&format!("/*[{}]", e));
            }
            if let Some(p) = elem_path_to_path(&root, &ep) {
                paths.push(p);
            }
            what = "element by child-index path".to_string();
        }
        3 | 4 | 5 => {
            let name = rng.ps(NAMES).to_string();
            if name.contains(':') {
                need_ns = true;
            }
            expr = format!("//{}", qname_for(&name, caller_p));
            named_paths(&root, &name, &mut vec![], &mut paths);
            what = "all elements of a name".to_string();
        }
        6 => {
            let name = rng.ps(NAMES).to_string();
            let a = rng.ps(ATTRS).to_string();
            if name.contains(':') {
                need_ns = true;
            }
            expr = format!("//{}/@{}", qname_for(&name, caller_p), a);
            let mut all = vec![];
            named_paths(&root, &name, &mut vec![], &mut all);
            for p in all {
                if let Some(G::El { attrs, .. }) = get(&root, &p) {
                    if attrs.iter().any(|(k, _)| *k == a) {
                        paths.push(p);
                    }
                }
            }
            attr = Some(a);
            what = "attributes of all elements of a name".to_string();
        }
        7 => {
            let ep = random_elem_path(&mut rng, &root);
            expr = String::from("/*");
            for e in &ep {
                expr.push_str(&format!("/*[{}]", e));
            }
            expr.push_str("/text()");
            if let Some(p) = elem_path_to_path(&root, &ep) {
                paths.push(p);
            }
            text_runs = true;
            what = "text children of an element".to_string();
        }
        8 => {
            let name = rng.ps(NAMES).to_string();
            if name.contains(':') {
                need_ns = true;
            }
            let mut all = vec![];
            named_paths(&root, &name, &mut vec![], &mut all);
            expr = format!("count(//{})", qname_for(&name, caller_p));
            scalar = Some(format!("{}", all.len()));
            what = "count()".to_string();
        }
        _ => {
            let name = rng.ps(NAMES).to_string();
            if name.contains(':') {
                need_ns = true;
            }
            let mut all = vec![];
            named_paths(&root, &name, &mut vec![], &mut all);
            expr = format!("string(//{})", qname_for(&name, caller_p));
            let mut s = String::new();
            if let Some(p) = all.first() {
                if let Some(g) = get(&root, p) {
                    string_value(g, &mut s);
                }
            }
            scalar = Some(s);
            what = "string()".to_string();
        }
    }

    // selections that are easy to get wrong at the edges: the document node itself, variables,
    // axes that leave the tree at the root, the parent of an attribute
    let mut special_fail = false;
    let mut doc_target = false;
    let mut zoo = false;
    // xe: the element at paths[0] AND its attribute of this name are both targets
    let mut also_attr: Option<String> = None;
    if sibling_family || rng.pct(24) {
        match if sibling_family { 4 } else { [0usize, 1, 2, 3, 6, 7][rng.below(6)] } {
            7 => {
                // every core function and operator once, with arguments at the edges: never a crash (O2);
                // the value is not judged here (the XPath properties are not simulation targets)
                expr = rng
                    .ps(&[
                        "//*[id('x')]", "id('x y')", "//*[lang('en')]", "lang('')", "translate('abc','ab','A')", "translate('abc','abc','')",
                        "substring-before('a','')", "substring-after('abc','')", "normalize-space()", "string-length()", "string-length('aé𝒳')",
                        "number('x')", "number(' 12 ')", "sum(//*)", "sum(//@id)", "round(-0.5)", "round(0 div 0)", "floor(1.5)", "ceiling(-0.5)",
                        "local-name(//@*)", "namespace-uri(//@*)", "name(/)", "string(/)", "1 mod 0", "5 mod -2", "//* = //*", "//* < 1", "//* != //@*",
                        "string(1 div 0)", "string(-0)", "string(0.1)", "concat('a','b','c')", "contains('','')", "starts-with('a','')",
                        "boolean('')", "not(//*)", "count(/)", "//*[position()=last()]/..", "(//*)[0]", "//*[-1]", "//*[1.5]", "//*[0 div 0]",
                        "//*[true()][false()]", "//*[last()][last()]", "//text()[string-length() > 2]", "//*[name() = local-name()]",
                        "//*[count(ancestor::*) > 1]", "//*[sum(@id) > 0]", "//*[string(@x)]", "//*[not(@*)]", "-(-1)", "1 - -1", "2 * 3 div 4 mod 5",
                        "((((((((((((((((((((((((1))))))))))))))))))))))))", "count(//*[count(//*[count(//*)])])",
                        "boolean(string(number(string(boolean(string(number(string(boolean(string(number(string(boolean(string(number(string(1))))))))))))))))",
                        "string(string(string(string(string(string(string(string(string(string(string(string(string(string(string(string(string(string(string(string(string(string(string(string(1))))))))))))))))))))))))",
                        "'a' = 1", "true() > false()", "//namespace::*[/]", "//namespace::*[/*]", "//namespace::*/..", "//namespace::*/parent::*",
                        "count(//namespace::*/ancestor::*)", "//namespace::*[name()]", "string(//namespace::*)", "//namespace::*[. = 'urn:p']",
                        "//namespace::*/following::*", "//namespace::*/self::node()", "//namespace::*/namespace::*", "//@*[/]", "//@*/following::*",
                        "//comment()[/]", "//text()[../..]", "/*[/*[/*]]", "//*[@x + 1]", "//*[@* * 2 > 1]", "//*[-@id]", "//*[@x mod 2]", "sum(//@x)", "//comment() | //processing-instruction()", "//*[self::a or self::b]", "//@*[. = '']",
                    ])
                    .to_string();
                paths.clear();
                attr = None;
                text_runs = false;
                scalar = None;
                need_ns = false;
                zoo = true;
                what = "core functions and operators at the edges (not judged beyond no crash)".into();
            }
            6 => {
                // string functions at the edges of their argument ranges (xq prints the scalar; for xe a scalar is unusable)
                let s = rng.ps(&["abc", "12345", "aéb𝒳z", ""]).to_string();
                let nums = ["0", "1", "2", "-1", "9", "1.5", "2.5", "0.5", "-0.5", "3", "100", "0 div 0", "1 div 0", "-1 div 0"];
                let val = |t: &str| -> f64 {
                    match t {
                        "0 div 0" => f64::NAN,
                        "1 div 0" => f64::INFINITY,
                        "-1 div 0" => f64::NEG_INFINITY,
                        v => v.parse().unwrap(),
                    }
                };
                let a = rng.ps(&nums).to_string();
                let b = if rng.pct(60) { Some(rng.ps(&nums).to_string()) } else { None };
                // XPath 1.0 section 4.2: positions p (from 1) with round(a) <= p < round(a) + round(b)
                let round = |v: f64| (v + 0.5).floor();
                let start = round(val(&a));
                let end = b.as_ref().map(|b| start + round(val(b)));
                let r: String = s
                    .chars()
                    .enumerate()
                    .filter(|(i, _)| {
                        let p = (*i + 1) as f64;
                        p >= start && end.map(|e| p < e).unwrap_or(true)
                    })
                    .map(|(_, c)| c)
                    .collect();
                expr = match &b {
                    Some(b) => format!("substring('{}', {}, {})", s, a, b),
                    None => format!("substring('{}', {})", s, a),
                };
                paths.clear();
                attr = None;
                text_runs = false;
                need_ns = false;
                scalar = Some(r);
                special_fail = tool == "xe";
                what = "substring() at the edges".into();
                if rng.pct(30) {
                    // a number is printed the way string() converts it (XPath 1.0 section 4.2)
                    let (e, v) = *rng.pick(&[
                        ("1 div 0", "Infinity"), ("-1 div 0", "-Infinity"), ("0 div 0", "NaN"), ("1 div 2", "0.5"), ("3", "3"), ("2 * 3", "6"),
                        ("-0", "0"), ("7 mod 4", "3"), ("1.50", "1.5"), ("-(1 div 0)", "-Infinity"), ("number('x')", "NaN"), ("0.5 + 0.25", "0.75"), ("ceiling(-0.5)", "0"), ("round(-0.5)", "0"), ("round(-1.5)", "-1"),
                        ("round(2.5)", "3"), ("0 * -1", "0"), ("round(-0.2)", "0"), ("floor(-0.5)", "-1"),
                        // integers beyond the range of machine integers: all digits, no exponent.  Only values whose exact
                        // decimal expansion is also their shortest round-trip form (XPath 1.0 does not say which of the two
                        // an integer beyond 2^53 is printed with: 2^63 may come out as 9223372036854776000)
                        ("100000000000000000000 * 3", "300000000000000000000"), ("10000000000000000000", "10000000000000000000"), ("-20000000000000000000", "-20000000000000000000"),
                        ("5000000000 * 10000000000", "50000000000000000000"), ("1000000 * 1000000", "1000000000000"), ("1 div 4", "0.25"), ("-2147483649", "-2147483649"), ("4294967296 * 2", "8589934592"),
                    ]);
                    expr = e.to_string();
                    scalar = Some(v.to_string());
                    what = "a number result".into();
                }
            }
            4 | 5 => {
                // one step along an axis from a single node obtained by a filter expression:
                // node-sets come back in document order whatever the direction of the axis
                let ep = sibling_rich_elem_path(&mut rng, &root);
                let mut base = String::from("/*");
                for e in &ep {
                    base.push_str(&format!("/*[{}]", e));
                }
                paths.clear();
                attr = None;
                text_runs = false;
                scalar = None;
                need_ns = false;
                let own = elem_path_to_path(&root, &ep).unwrap_or_default();
                let mut sibs_before: Vec<Vec<usize>> = vec![];
                let mut sibs_after: Vec<Vec<usize>> = vec![];
                if let Some((last, parent)) = own.split_last() {
                    if let Some(G::El { kids, .. }) = get(&root, parent) {
                        for (i, k) in kids.iter().enumerate() {
                            if matches!(k, G::El { .. }) && i != *last {
                                let mut p = parent.to_vec();
                                p.push(i);
                                if i < *last {
                                    sibs_before.push(p);
                                } else {
                                    sibs_after.push(p);
                                }
                            }
                        }
                    }
                }
                let mut ancestors: Vec<Vec<usize>> = (0..own.len()).map(|n| own[..n].to_vec()).collect();
                let name_of = |p: &Vec<usize>| -> String {
                    match get(&root, p) {
                        Some(G::El { name, .. }) => name.clone(),
                        _ => String::new(),
                    }
                };
                // every element of the document, in document order (paths over all children)
                let mut all_elems: Vec<Vec<usize>> = vec![];
                {
                    fn walk(g: &G, path: &mut Vec<usize>, out: &mut Vec<Vec<usize>>) {
                        if let G::El { kids, .. } = g {
                            out.push(path.clone());
                            for (i, k) in kids.iter().enumerate() {
                                path.push(i);
                                walk(k, path, out);
                                path.pop();
                            }
                        }
                    }
                    walk(&root, &mut vec![], &mut all_elems);
                }
                let is_prefix = |a: &Vec<usize>, b: &Vec<usize>| a.len() <= b.len() && b[..a.len()] == a[..];
                let own_attrs: Vec<String> = match get(&root, &own) {
                    Some(G::El { attrs, .. }) => attrs.iter().map(|(k, _)| k.clone()).collect(),
                    _ => vec![],
                };
                let mut form = [0usize, 1, 2, 3, 6, 7, 8, 9, 4, 5][rng.below(if tool == "xq" { 10 } else { 8 })];
                if form == 9 && (tool == "xq" || own_attrs.is_empty()) {
                    form = 8;
                }
                let wrap = |rng: &mut Rng, base: &str| -> String {
                    match rng.below(3) {
                        0 => base.to_string(),
                        1 => format!("({})", base),
                        _ => format!("({})[1]", base),
                    }
                };
                match form {
                    6 => {
                        // everything after the element in document order, its own descendants excluded
                        expr = format!("{}/following::*", wrap(&mut rng, &base));
                        paths = all_elems.iter().filter(|p| **p > own && !is_prefix(&own, p)).cloned().collect();
                        what = "elements following one element in document order".into();
                    }
                    7 => {
                        // everything before the element in document order, its ancestors excluded
                        expr = format!("{}/preceding::*", wrap(&mut rng, &base));
                        paths = all_elems.iter().filter(|p| **p < own && !is_prefix(p, &own)).cloned().collect();
                        what = "elements preceding one element in document order".into();
                    }
                    8 => {
                        // a union written against document order
                        let n1 = rng.ps(&["a", "b", "c"]).to_string();
                        let n2 = rng.ps(&["a", "b", "c"]).to_string();
                        let mut p1 = vec![];
                        named_paths(&root, &n1, &mut vec![], &mut p1);
                        let mut p2 = vec![];
                        named_paths(&root, &n2, &mut vec![], &mut p2);
                        expr = format!("//{} | {} | //{}", qname_for(&n2, caller_p), base, qname_for(&n1, caller_p));
                        let mut u: Vec<Vec<usize>> = p1;
                        u.extend(p2);
                        u.push(own.clone());
                        u.sort();
                        u.dedup();
                        paths = u;
                        what = "union of three paths, in document order whatever the order of the operands".into();
                    }
                    9 => {
                        // an element together with one of its own attributes: both are rewritten
                        let a = rng.pick(&own_attrs).clone();
                        expr = if rng.pct(50) { format!("{} | {}/@{}", base, base, a) } else { format!("{}/@{} | {}", base, a, base) };
                        paths = vec![own.clone()];
                        also_attr = Some(a);
                        what = "an element and one of its own attributes".into();
                    }
                    0 => {
                        expr = format!("{}/preceding-sibling::*", wrap(&mut rng, &base));
                        paths = sibs_before.clone();
                        what = "preceding element siblings of one element".into();
                    }
                    1 => {
                        expr = format!("{}/following-sibling::*", wrap(&mut rng, &base));
                        paths = sibs_after.clone();
                        what = "following element siblings of one element".into();
                    }
                    2 | 3 => {
                        // conversion of a reverse-axis node-set inside a predicate: its first node in document order counts
                        let right = rng.pct(70);
                        let first = sibs_before.first().map(|p| name_of(p)).unwrap_or_default();
                        let probe = if right { first.clone() } else { sibs_before.last().map(|p| name_of(p)).unwrap_or_else(|| "a".into()) };
                        expr = format!("{}[name(preceding-sibling::*) = \"{}\"]", base, probe);
                        if probe == first && !(sibs_before.is_empty() && !probe.is_empty()) {
                            paths.push(own.clone());
                        }
                        what = "element chosen by the name of its first preceding sibling".into();
                    }
                    4 => {
                        if rng.pct(50) {
                            ancestors.push(own.clone());
                            expr = format!("{}/ancestor-or-self::*", wrap(&mut rng, &base));
                        } else {
                            expr = format!("{}/ancestor::*", wrap(&mut rng, &base));
                        }
                        paths = ancestors.clone();
                        what = "ancestor elements of one element, outermost first".into();
                    }
                    _ => {
                        let mut sv = String::new();
                        if let Some(p) = sibs_before.first() {
                            if let Some(g) = get(&root, p) {
                                string_value(g, &mut sv);
                            }
                        }
                        expr = format!("string({}/preceding-sibling::*)", wrap(&mut rng, &base));
                        scalar = Some(sv);
                        what = "string() of preceding siblings: the first in document order".into();
                    }
                }
            }
            0 => {
                expr = "/".into();
                paths.clear();
                attr = None;
                text_runs = false;
                scalar = None;
                need_ns = false;
                doc_target = true;
                what = "the document node".into();
            }
            1 => {
                expr = rng.ps(&["$x", "$p:x", "count($n)", "$x | /*"]).to_string();
                need_ns = false;
                special_fail = true;
                what = "variable reference".into();
            }
            2 => {
                expr = rng.ps(&["/..", "/parent::node()", "/ancestor::node()", "/preceding-sibling::*", "/following::*"]).to_string();
                paths.clear();
                attr = None;
                text_runs = false;
                scalar = None;
                need_ns = false;
                what = "empty selection from the root".into();
            }
            _ => {
                let name = rng.ps(&["a", "b", "c"]).to_string();
                let a = rng.ps(ATTRS).to_string();
                expr = format!("//{}/@{}/..", qname_for(&name, caller_p), a);
                paths.clear();
                let mut all = vec![];
                named_paths(&root, &name, &mut vec![], &mut all);
                for p in all {
                    if let Some(G::El { attrs, .. }) = get(&root, &p) {
                        if attrs.iter().any(|(k, _)| *k == a) {
                            paths.push(p);
                        }
                    }
                }
                attr = None;
                text_runs = false;
                scalar = None;
                need_ns = false;
                what = "parent of attributes".into();
            }
        }
    }

    // unusable input (fault kind "unusable argv")
    let bad = rng.below(100);
    let mut expect_kind = String::new();
    let mut expect = String::new();
    let mut sel = String::new();
    let mut value = String::new();
    let mut vkids: Vec<G> = vec![];
    if tool == "xe" {
        let n = rng.range(0, 3);
        let mut vb = 4usize;
        for _ in 0..n {
            let mut g = CliGen { rng: &mut rng, budget: vb, rich: false, ents: false };
            let k = match g.rng.below(10) {
                0..=4 => G::Text(g.word(1, 4)),
                5..=7 => {
                    let mut e = g.element(3);
                    vb = g.budget;
                    // namespace declarations written in the value, with names that use them
                    if g.rng.pct(35) {
                        if let G::El { name, kids, ns, .. } = &mut e {
                            *ns = Some(g.rng.ps(&["urn:p2", "urn:v", "urn:p", "urn:a&b"]).to_string());
                            match g.rng.below(3) {
                                0 => *name = "p:d".to_string(),
                                1 => kids.push(G::El { name: "p:d".into(), attrs: vec![], kids: vec![], ns: None }),
                                _ => {}
                            }
                        }
                    }
                    // two attributes that differ only in their prefix
                    if g.rng.pct(6) {
                        if let G::El { attrs, .. } = &mut e {
                            attrs.retain(|(k, _)| k != "x");
                            attrs.push(("x".into(), "1".into()));
                            attrs.push(("p:x".into(), "2".into()));
                        }
                    }
                    e
                }
                8 => match g.rng.below(3) {
                    0 => G::Comment(g.word(0, 3)),
                    1 => G::PI("t".into(), g.word(0, 2).trim_start().to_string()),
                    _ => {
                        let (s, c) = *g.rng.pick(&[("&#38;", "&"), ("&#x26;", "&"), ("&#x3C;", "<"), ("&#0060;", "<"), ("&#233;", "é"), ("&#xE9;", "é"), ("&#10;", "\n"), ("&#9;", "\t"), ("&#x3c;", "<"), ("&#038;", "&"), ("&#1;", "\u{1}"), ("&#xFFFE;", "\u{FFFE}")]);
                        G::CharRef(s.to_string(), c.to_string())
                    }
                },
                _ => G::CData(g.word(0, 3)),
            };
            if matches!((&k, vkids.last()), (G::Text(_), Some(G::Text(_)))) {
                continue;
            }
            vkids.push(k);
        }
        // `]]` and a `>` written as a reference: two adjacent pieces of character data that must not come out as `]]>`
        if rng.pct(6) {
            vkids.clear();
            vkids.push(G::Text(format!("{}]]", rng.ps(&["", "a", "é"]))));
            let (s, c) = *rng.pick(&[("&#62;", ">"), ("&#x3E;", ">"), ("&#x3e;", ">")]);
            vkids.push(G::CharRef(s.to_string(), c.to_string()));
            if rng.pct(50) {
                vkids.push(G::Text("z".into()));
            }
        }
        for k in &vkids {
            render(k, false, &mut value);
        }
    }

    // the caller's binding for the document's default namespace (harmless where no plain name is used)
    match (dns, dmode) {
        (Some(d), 0) | (Some(d), 1) => {
            argv.push("--setns".into());
            argv.push(format!("xmlns={}", d));
        }
        (Some(d), 2) | (Some(d), 3) => {
            argv.push("--setns".into());
            argv.push(format!("xmlns:n={}", d));
        }
        _ => {}
    }
    if need_ns {
        // the same prefix bound twice: the later binding counts
        if rng.pct(20) {
            argv.push("--setns".into());
            argv.push(format!("xmlns:{}={}", caller_p, rng.ps(&["urn:first", "urn:p2", "urn:p"])));
        }
        argv.push("--setns".into());
        argv.push(format!("xmlns:{}={}", caller_p, caller_uri));
        // and a binding nobody uses
        if rng.pct(15) {
            argv.push("--setns".into());
            argv.push("xmlns:unused=urn:unused".into());
        }
    }
    let use_file = rng.pct(40);
    if use_file {
        argv.push("/sim/doc.xml".into());
    }
    argv.push("--xpath".into());
    argv.push(expr.clone());
    if tool == "xe" {
        argv.push("--value".into());
        argv.push(value.clone());
    }
    if !indent {
        argv.push("--no-indent".into());
    }

    if bad < 12 {
        // one class of unusable invocation; the tool must end with a message and status 1, never a crash
        expect_kind = "fail".into();
        let k = rng.below(9);
        match k {
            0 => {
                argv.retain(|a| a != "--xpath" && *a != expr);
                what = "missing --xpath".into();
            }
            1 => {
                let i = argv.iter().position(|a| a == "--xpath").unwrap();
                argv.truncate(i + 1);
                what = "--xpath without a value".into();
            }
            2 => {
                argv.push("--xpath".into());
                argv.push("/*".into());
                what = "--xpath twice".into();
            }
            3 => {
                argv.push("--setns".into());
                argv.push(rng.ps(&["p=urn:p", "xmlns:p", "foo:p=urn:p", "=x"]).to_string());
                what = "malformed --setns".into();
            }
            4 => {
                let i = argv.iter().position(|a| a == "--xpath").unwrap();
                argv[i + 1] = rng.ps(&["//*[", "count(", "//a]", "/*/@", "1 +", "//a[@x=']"]).to_string();
                what = "syntax error in the expression".into();
            }
            5 => {
                let i = argv.iter().position(|a| a == "--xpath").unwrap();
                argv[i + 1] = "//nope:a".into();
                what = "unbound prefix in the expression".into();
            }
            6 => {
                if tool == "xe" {
                    let i = argv.iter().position(|a| a == "--value").unwrap();
                    argv[i + 1] = rng.ps(&["<a>", "</a>", "<a b=>", "&nope;", "<a><b></a></b>"]).to_string();
                    what = "ill-formed --value".into();
                } else {
                    argv.push("second-file.xml".into());
                    argv.push("third".into());
                    what = "two file paths".into();
                }
            }
            7 => {
                if tool == "xe" {
                    let i = argv.iter().position(|a| a == "--xpath").unwrap();
                    argv[i + 1] = rng.ps(&["count(//a)", "string(/*)", "1 = 1", "'x'"]).to_string();
                    what = "xe given a scalar expression".into();
                } else {
                    let i = argv.iter().position(|a| a == "--xpath").unwrap();
                    argv[i + 1] = "unknown-function()".into();
                    what = "unknown function".into();
                }
            }
            _ => {
                if tool == "xe" {
                    argv.retain(|a| a != "--value" && *a != value);
                    if !argv.iter().any(|a| a == "--value") {
                        what = "missing --value".into();
                    }
                } else {
                    let i = argv.iter().position(|a| a == "--xpath").unwrap();
                    argv[i + 1] = "count(1)".into();
                    what = "count() of a number".into();
                }
            }
        }
    } else if zoo {
        expect_kind = "any".into();
    } else if special_fail {
        expect_kind = "fail".into();
    } else if doc_target && tool == "xq" {
        match serialise_document(&doc, indent) {
            Some(s) => {
                expect_kind = "stdout".into();
                expect = s;
            }
            None => expect_kind = "any".into(),
        }
    } else if doc_target {
        // xe on the document node: its children are replaced by the fragment
        let els = vkids.iter().filter(|k| matches!(k, G::El { .. })).count();
        let only_doc_level = vkids.iter().all(|k| matches!(k, G::El { .. } | G::Comment(_) | G::PI(..)));
        let has_doctype = pre.iter().any(|k| matches!(k, G::DocType(..)));
        if has_doctype && only_doc_level {
            // whether the document type is one of "the children" that xe replaces is not stated anywhere
            expect_kind = "any".into();
        } else if els == 1 && only_doc_level {
            let mut c = String::new();
            canon_kids(&vkids, None, None, &mut c);
            expect_kind = if indent { "canonws".into() } else { "canon".into() };
            expect = c;
        } else if !only_doc_level {
            // text, CDATA or references cannot be children of a document
            expect_kind = "fail".into();
            what = "xe: character data as child of the document".into();
        } else {
            // no element or several: what would be left is not a document (its output could not be parsed back)
            expect_kind = "fail".into();
            what = "xe: the replacement leaves the document without exactly one document element".into();
        }
    } else if tool == "xq" {
        if let Some(s) = scalar {
            expect_kind = "stdout".into();
            expect = format!("{}\n", s);
        } else {
            match serialise_targets(&doc, &paths, attr.as_deref(), text_runs, indent) {
                Some(s) => {
                    expect_kind = "stdout".into();
                    expect = s;
                    // what the printed text must denote, from the generator's tree (not from the library's printer)
                    let has_doctype = pre.iter().any(|k| matches!(k, G::DocType(..)));
                    if attr.is_none() && !text_runs && !has_doctype {
                        let mut c = String::from("E(\"w\"[");
                        for p in &paths {
                            if let Some(g) = get(&root, p) {
                                // xq prints a node's own markup, without the declarations it inherits: the
                                // printed text is read under the binding the wrapper gives (urn:p), whatever
                                // the node's context was; re-declarations inside the subtree are printed
                                // (the default namespace is declared on the document element only: a selected
                                // inner element is printed without it)
                                let dns = if p.is_empty() { doc_dns() } else { None };
                                canon_kids(std::slice::from_ref(g), Some("urn:p"), dns.as_deref(), &mut c);
                                c.push_str("T(\"\\n\")");
                            }
                        }
                        c.push_str("])");
                        sel = c;
                    }
                }
                None => {
                    expect_kind = "any".into();
                }
            }
        }
    } else {
        // xe: replace the children of exactly the targets
        if text_runs {
            expect_kind = if paths.is_empty() || !has_text_child(&root, &paths) { "canon-unchanged".into() } else { "fail".into() };
            what = "xe given text nodes".into();
        } else if let Some(a) = &attr {
            let textual = vkids.iter().all(|k| matches!(k, G::Text(_) | G::CharRef(..) | G::EntRef(..)));
            if paths.is_empty() {
                expect_kind = "canon-unchanged".into();
            } else if !textual {
                expect_kind = "fail".into();
                what = "xe: markup as attribute value".into();
            } else {
                let mut r = root.clone();
                let mut sv = String::new();
                for k in &vkids {
                    string_value(k, &mut sv);
                }
                // a character reference to white space keeps the character (no normalisation): listed finding
                if vkids.iter().any(|k| matches!(k, G::CharRef(_, c) if c == "\n" || c == "\t")) {
                    gate = "xe_attribute_value_whitespace_reference".into();
                }
                for p in &paths {
                    if let Some(G::El { attrs, .. }) = get_mut(&mut r, p) {
                        for (k, v) in attrs.iter_mut() {
                            if k == a {
                                *v = format!("{}{}", EXACT, sv);
                            }
                        }
                    }
                }
                expect_kind = "canon".into();
                expect = canon_of(&pre, &r, &post);
            }
        } else {
            let mut r = root.clone();
            // outermost targets only: replacing an ancestor's children removes the inner ones
            let mut tops: Vec<Vec<usize>> = vec![];
            for p in &paths {
                if !tops.iter().any(|t| p.len() > t.len() && p[..t.len()] == t[..]) {
                    tops.push(p.clone());
                }
            }
            for p in &tops {
                if let Some(G::El { kids, .. }) = get_mut(&mut r, p) {
                    *kids = vkids.clone();
                }
            }
            expect_kind = "canon".into();
            if let Some(a) = &also_attr {
                let textual = vkids.iter().all(|k| matches!(k, G::Text(_) | G::CharRef(..) | G::EntRef(..)));
                if !textual {
                    expect_kind = "fail".into();
                    what = "xe: markup as attribute value".into();
                } else {
                    let mut sv = String::new();
                    for k in &vkids {
                        string_value(k, &mut sv);
                    }
                    if vkids.iter().any(|k| matches!(k, G::CharRef(_, c) if c == "\n" || c == "\t")) {
                        gate = "xe_attribute_value_whitespace_reference".into();
                    }
                    if let Some(G::El { attrs, .. }) = get_mut(&mut r, &paths[0]) {
                        for (k, v) in attrs.iter_mut() {
                            if k == a {
                                *v = format!("{}{}", EXACT, sv);
                            }
                        }
                    }
                }
            }
            if expect_kind == "canon" {
                expect = canon_of(&pre, &r, &post);
            }
            if paths.len() > tops.len() {
                what.push_str(" (nested targets)");
            }
        }
        if expect_kind == "canon-unchanged" {
            expect_kind = "canon".into();
            expect = canon_of(&pre, &root, &post);
        }
        if expect_kind == "canon" && indent {
            expect_kind = "canonws".into();
        }
        // regions of listed findings (recognised on the generator-side tree, before execution)
        if expect_kind.starts_with("canon") {
            if value_has(&vkids, |g| match g {
                G::El { attrs, .. } => attrs.iter().any(|(k, _)| attrs.iter().any(|(k2, _)| k != k2 && local(k) == local(k2))),
                _ => false,
            }) {
                gate = "xe_value_attribute_local_collision".into();
            }
        }
    }
    // a character reference to something that is not an XML character makes --value unusable (wherever it goes,
    // unless nothing is selected at all)
    if tool == "xe"
        && value_has(&vkids, |g| matches!(g, G::CharRef(_, c) if c == "\u{1}" || c == "\u{FFFE}"))
        && expect_kind.starts_with("canon")
        && (!paths.is_empty() || doc_target)
        && !text_runs
    {
        expect_kind = "fail".into();
        expect = String::new();
        what = "xe: character reference to a non-XML character in --value".into();
    }
    // regions of listed findings that do not depend on where the value goes
    if tool == "xe"
        && expect_kind != "fail"
        && gate.is_empty()
        && value_has(&vkids, |g| match g {
            G::El { attrs, .. } => attrs.iter().any(|(k, _)| attrs.iter().any(|(k2, _)| k != k2 && local(k) == local(k2))),
            _ => false,
        })
    {
        gate = "xe_value_attribute_local_collision".into();
    }
    Case { id, tool: tool.to_string(), argv, doc, expect_kind, expect, gate, what, sel }
}

fn value_has(v: &[G], f: fn(&G) -> bool) -> bool {
    v.iter().any(|g| {
        f(g)
            || match g {
                G::El { kids, .. } => value_has(kids, f),
                _ => false,
            }
    })
}

fn has_text_child(root: &G, paths: &[Vec<usize>]) -> bool {
    paths.iter().any(|p| match get(root, p) {
        Some(G::El { kids, .. }) => kids.iter().any(|k| matches!(k, G::Text(_) | G::CData(_) | G::CharRef(..) | G::EntRef(..))),
        _ => false,
    })
}

fn canon_of(pre: &[G], root: &G, post: &[G]) -> String {
    let mut all: Vec<G> = pre.to_vec();
    // the document element always declares xmlns:p="urn:p" (render), whatever its `ns` field says
    all.push(match root.clone() {
        G::El { name, attrs, kids, .. } => G::El { name, attrs, kids, ns: None },
        g => g,
    });
    all.extend_from_slice(post);
    let mut s = String::new();
    canon_kids(&all, Some("urn:p"), doc_dns().as_deref(), &mut s);
    s
}

/// `domsim gen-cli --seed S --from A --count N`
pub fn cmd_gen(seed: u64, from: u64, count: u64) {
    for id in from..from + count {
        let c = gen_case(seed, id);
        println!("{}", c.to_line());
    }
}

/// `domsim canon-batch`: stdin lines "<id> <enc(xml)>" → stdout lines "<id> ok <enc(canon)>" | "<id> err <enc(msg)>"
pub fn cmd_canon_batch() {
    use std::io::BufRead;
    let stdin = std::io::stdin();
    for line in stdin.lock().lines() {
        let line = match line {
            Ok(l) => l,
            Err(_) => break,
        };
        let mut it = line.splitn(2, ' ');
        let id = it.next().unwrap_or("");
        let xml = dec(it.next().unwrap_or("%")).unwrap_or_default();
        let r = crate::real::guarded(|| match xml_dom::XmlDocument::from_raw(&xml) {
            Ok((rest, d)) => {
                if !rest.is_empty() {
                    Err(format!("unconsumed input {:?}", rest))
                } else {
                    canon_doc_ns(&d)
                }
            }
            Err(e) => Err(format!("{}", e)),
        });
        match r {
            Ok(Ok(c)) => println!("{} ok {}", id, enc(&c)),
            Ok(Err(e)) => println!("{} err {}", id, enc(&e)),
            Err(p) => println!("{} err {}", id, enc(&format!("panic: {}", p))),
        }
    }
}
