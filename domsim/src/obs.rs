//! Observation records shared by the real-world traversal and the reference model.

use std::collections::BTreeMap;

#[derive(Clone, Copy, Debug, PartialEq, Eq, PartialOrd, Ord, Hash)]
pub struct Key {
    pub doc: usize,
    pub id: usize,
}

impl std::fmt::Display for Key {
    fn fmt(&self, f: &mut std::fmt::Formatter<'_>) -> std::fmt::Result {
        write!(f, "d{}#{}", self.doc, self.id)
    }
}

#[derive(Clone, Copy, Debug, PartialEq, Eq, PartialOrd, Ord, Hash)]
pub enum OKind {
    Document,
    Element,
    Attr,
    Text,
    CData,
    EntRef,
    Comment,
    PI,
    DocType,
    Fragment,
    Other,
}

#[derive(Clone, Debug, PartialEq)]
pub struct AttrObs {
    /// name as written (`prefix:local`), taken from the attribute's own serialisation
    pub qname: String,
    pub name: String,
    pub value: String,
    pub specified: bool,
    pub key: Key,
    pub order: usize,
}

/// What the public accessors report about one node.
#[derive(Clone, Debug, PartialEq)]
pub struct NodeObs {
    pub key: Key,
    pub kind: OKind,
    pub name: String,
    pub value: Option<String>,
    pub parent: Option<Key>,
    pub children: Vec<Key>,
    /// sorted by name (relative order of attributes is left free by the properties)
    pub attrs: Vec<AttrObs>,
    pub first: Option<Key>,
    pub last: Option<Key>,
    pub has_child: bool,
    /// previous/next sibling as reported by each child (parallel to `children`)
    pub prevs: Vec<Option<Key>>,
    pub nexts: Vec<Option<Key>>,
    pub order: usize,
    /// true if reached by descending from a document node
    pub attached: bool,
    /// replacement value of an entity / character reference
    pub ref_value: Option<String>,
    /// namespace prefix of an element as written (None if unprefixed)
    pub prefix: Option<String>,
}

pub type ObsMap = BTreeMap<Key, NodeObs>;

/// What the reference model expects the accessors to report.
#[derive(Clone, Debug, PartialEq)]
pub struct Expect {
    pub key: Key,
    pub kind: OKind,
    pub name: String,
    pub value: Option<String>,
    pub parent: Option<Key>,
    pub children: Vec<Key>,
    /// (name, value, key), sorted by name
    pub attrs: Vec<(String, String, Key)>,
    /// attributes that exist only through a DTD default: (name, value), sorted
    pub defaults: Vec<(String, String)>,
    pub attached: bool,
    /// value not judged (model adopted it from the implementation)
    pub value_free: bool,
}

pub type ExpectMap = BTreeMap<Key, Expect>;

/// A failed oracle clause.
#[derive(Clone, Debug, PartialEq)]
pub struct Fail {
    /// property that owns the clause
    pub prop: &'static str,
    /// stable clause name
    pub clause: &'static str,
    pub detail: String,
}

impl Fail {
    pub fn new(prop: &'static str, clause: &'static str, detail: String) -> Fail {
        Fail { prop, clause, detail }
    }
}
