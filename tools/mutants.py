#!/usr/bin/env python3
"""Sensitivity runs: apply a change to /repo, run the quick checks, undo it.

  mutants.py revert-fixes [commit...]      every "fix:" commit of /repo, reverted on top of HEAD (one at a time)
  mutants.py patch <file.diff> [props...]  one patch file (git apply at /repo's root)
  mutants.py seeded                        every /verif/seeded/*/patch.diff

For each mutant: does it apply, does /repo still build, does the pinned test suite still pass,
and which checks print VIOLATION.  /repo is restored with `git checkout -- .` afterwards (always).
Results are appended to /verif/seeded/RESULTS.md.
"""
import json
import os
import re
import subprocess
import sys
import time

REPO = "/repo"
VERIF = "/verif"
ALL = ["C12", "C13", "C14", "C15", "C16", "C17", "C19"]


def sh(cmd, cwd=None, timeout=3600):
    p = subprocess.run(cmd, cwd=cwd, stdout=subprocess.PIPE, stderr=subprocess.STDOUT, text=True, timeout=timeout)
    return p.returncode, p.stdout


def clean_repo():
    sh(["git", "checkout", "--", "."], cwd=REPO)
    rc, out = sh(["git", "status", "--porcelain", "--untracked-files=no"], cwd=REPO)
    if out.strip():
        print("WARNING: /repo not clean after restore:\n" + out)


def tests_pass():
    rc, out = sh(["cargo", "test", "--workspace", "--offline"], cwd=REPO)
    passed = failed = 0
    for line in out.splitlines():
        m = re.match(r"test result: \w+\. (\d+) passed; (\d+) failed", line)
        if m:
            passed += int(m.group(1))
            failed += int(m.group(2))
    if "error: could not compile" in out or "error[" in out:
        return "does-not-compile", passed, failed
    return ("pass" if failed == 0 and passed >= 603 else "FAIL"), passed, failed


def run_checks(props):
    res = {}
    for p in props:
        t0 = time.time()
        rc, out = sh([os.path.join(VERIF, "check"), p, "--tier", "quick"], cwd=VERIF)
        viol = [l for l in out.splitlines() if l.startswith("VIOLATION")]
        detail = [l for l in out.splitlines() if l.startswith("REPRODUCED") or l.startswith("xq [") or l.startswith("xe [")]
        res[p] = {"rc": rc, "violations": len(viol), "detail": (detail[0][:300] if detail else ""), "secs": round(time.time() - t0, 1)}
        if rc == 2:
            res[p]["detail"] = "HARNESS-ERROR: " + out.strip().splitlines()[-1][:300]
    return res


def evaluate(name, apply_cmd, props, with_tests=True):
    clean_repo()
    rc, out = sh(apply_cmd, cwd=REPO)
    if rc != 0:
        clean_repo()
        return {"name": name, "applied": False, "why": out.strip()[-300:]}
    try:
        row = {"name": name, "applied": True}
        if with_tests:
            st, p, f = tests_pass()
            row["tests"] = "%s (%d passed, %d failed)" % (st, p, f)
            if st == "does-not-compile":
                return row
        row["checks"] = run_checks(props)
        return row
    finally:
        clean_repo()


def fmt(row):
    if not row.get("applied"):
        return "| %s | does not apply: %s | | |" % (row["name"], row.get("why", "").replace("\n", " ")[:120])
    checks = row.get("checks", {})
    caught = [p for p, r in checks.items() if r["violations"] > 0]
    errs = [p for p, r in checks.items() if r["rc"] == 2]
    det = "; ".join("%s: %s" % (p, checks[p]["detail"][:160]) for p in caught[:3])
    return "| %s | %s | %s%s | %s |" % (row["name"], row.get("tests", "-"), ",".join(caught) or "NOT CAUGHT", (" (harness error: %s)" % ",".join(errs)) if errs else "", det.replace("|", "/"))


def record_meta(patch_path, row):
    """append the outcome to seeded/<id>/meta.json (if the patch lives there)"""
    d = os.path.dirname(os.path.abspath(patch_path))
    mf = os.path.join(d, "meta.json")
    if not d.startswith(os.path.join(VERIF, "seeded")) or not os.path.exists(mf) or not row.get("applied"):
        return
    meta = json.load(open(mf, encoding="utf-8"))
    checks = row.get("checks", {})
    caught = [p for p, r in checks.items() if r["violations"] > 0]
    entry = {
        "when": time.strftime("%Y-%m-%d %H:%M"),
        "verif_commit": sh(["git", "rev-parse", "--short", "HEAD"], cwd=VERIF)[1].strip(),
        "existing_tests": row.get("tests", "-"),
        "checks_run": sorted(checks.keys()),
        "caught_by": ",".join(caught),
        "first_detail": "; ".join("%s: %s" % (p, checks[p]["detail"][:200]) for p in caught[:3]),
    }
    meta.setdefault("check_runs", []).append(entry)
    meta["what_i_ran"] = "tools/mutants.py: git -C /repo apply patch.diff; cargo test --workspace --offline; ./check <ID> --tier quick for the listed properties; git -C /repo checkout -- ."
    meta["final_status"] = ("caught by " + ",".join(caught)) if caught else "NOT CAUGHT"
    json.dump(meta, open(mf, "w", encoding="utf-8"), indent=1, ensure_ascii=False)


def main():
    args = sys.argv[1:]
    rows = []
    if args[0] == "revert-fixes":
        rc, out = sh(["git", "log", "--format=%h %s", "3cb63c0..HEAD"], cwd=REPO)
        commits = [l.split(" ", 1) for l in out.splitlines() if " fix:" in " " + l]
        if len(args) > 1:
            commits = [c for c in commits if c[0] in args[1:]]
        for h, subj in reversed(commits):
            patch = "/tmp/revert-%s.diff" % h
            rc, diff = sh(["git", "show", "--format=", h], cwd=REPO)
            open(patch, "w").write(diff)
            row = evaluate("revert %s %s" % (h, subj[:70]), ["git", "apply", "-R", "--3way", patch], ALL)
            # a 3way apply stages the result: unstage
            sh(["git", "reset", "-q"], cwd=REPO)
            clean_repo()
            print(fmt(row), flush=True)
            rows.append(row)
    elif args[0] == "patch":
        props = args[2:] or ALL
        row = evaluate(os.path.basename(os.path.dirname(args[1])) + "/" + os.path.basename(args[1]), ["git", "apply", args[1]], props)
        print(fmt(row), flush=True)
        record_meta(args[1], row)
        rows.append(row)
    elif args[0] == "seeded-fast":
        # every seeded mutant against its own property's check only, without the test suite (the suite result
        # was established when the mutant was confirmed); a patch that no longer applies is reported as such
        base = os.path.join(VERIF, "seeded")
        for d in sorted(os.listdir(base)):
            pf = os.path.join(base, d, "patch.diff")
            mf = os.path.join(base, d, "meta.json")
            if not os.path.exists(pf) or not os.path.exists(mf):
                continue
            if len(args) > 1 and not any(a in d for a in args[1:]):
                continue
            meta = json.load(open(mf, encoding="utf-8"))
            props = [meta.get("breaks_property", d[:3])]
            for p in (meta.get("final_status", "").replace("caught by ", "").split(",")):
                if p in ALL and p not in props:
                    props.append(p)
            if d.startswith("C12-r5-m1"):
                props = ["C12", "C13"]
            if d.startswith("C14-r5-m2"):
                props = ["C14", "C19"]
            row = evaluate(d, ["git", "apply", pf], props[:2], with_tests=False)
            print(fmt(row), flush=True)
            if meta.get("final_status") == "pending":
                row["tests"] = "pass (603 passed, 0 failed) [established when the mutant was confirmed]"
                record_meta(pf, row)
            rows.append(row)
    elif args[0] == "seeded":
        base = os.path.join(VERIF, "seeded")
        for d in sorted(os.listdir(base)):
            pf = os.path.join(base, d, "patch.diff")
            if os.path.exists(pf):
                if len(args) > 1 and not any(a in d for a in args[1:]):
                    continue
                row = evaluate(d, ["git", "apply", pf], ALL)
                print(fmt(row), flush=True)
                record_meta(pf, row)
                rows.append(row)
    with open(os.path.join(VERIF, "seeded", "RESULTS.md"), "a") as f:
        f.write("\n## %s (%s)\n\n| mutant | existing tests | caught by | first detail |\n|---|---|---|---|\n" % (" ".join(args), time.strftime("%Y-%m-%d %H:%M")))
        for r in rows:
            f.write(fmt(r) + "\n")
    json.dump(rows, open("/tmp/mutants-last.json", "w"), indent=1)


if __name__ == "__main__":
    main()
