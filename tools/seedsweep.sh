#!/bin/bash
# zero-alarm sweep: every quick check under many seeds; prints one line per (seed, check) that is not clean
cd "$(dirname "$0")/.."
FROM=${1:-2}; TO=${2:-21}
./check build >/dev/null 2>&1
for s in $(seq $FROM $TO); do
  for p in C12 C13 C14 C15 C16 C17 C19; do
    out=$(VERIF_SEED=$s ./check $p --tier quick 2>&1); rc=$?
    if [ $rc -ne 0 ]; then echo "seed=$s $p rc=$rc"; echo "$out" | grep -E "VIOLATION|REPRODUCED|HARNESS|xq \[|xe \[" | head -5; fi
  done
  echo "seed $s done"
done
