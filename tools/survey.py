#!/usr/bin/env python3
"""Survey: run a batch per property, group violations by (clause, normalised detail), minimise one of each.
usage: survey.py OUTDIR [runs] [props...]"""
import os, re, subprocess, sys, shutil, json
D = "/verif/.build/domsim/release/domsim"
out = sys.argv[1]
runs = int(sys.argv[2]) if len(sys.argv) > 2 else 3000
props = sys.argv[3:] or ["C12", "C13", "C14", "C15", "C16", "C19"]
os.makedirs(out, exist_ok=True)
known = "/verif/known_findings.txt"
# the binary may have been built against a patched /repo (tools/mutants.py): always rebuild first
subprocess.run(["/verif/check", "build"], stdout=subprocess.DEVNULL, stderr=subprocess.DEVNULL)
def norm(s):
    s = re.sub(r"d\d+#\d+", "N", s)
    s = re.sub(r"#\d+", "N", s)
    s = re.sub(r"Key \{ doc: \d+, id: \d+ \}", "K", s)
    s = re.sub(r"\d+", "0", s)
    s = re.sub(r'"[^"]*"', '"S"', s)
    return s[:110]
for p in props:
    tmp = os.path.join(out, "tmp-" + p)
    shutil.rmtree(tmp, ignore_errors=True)
    procs = []
    per = runs // 16
    for w in range(16):
        cmd = [D, "run", "--prop", p, "--seed", "11", "--from", str(w * per), "--count", str(per), "--out", tmp, "--tag", "w%d" % w, "--max-violations", "4000"]
        if os.path.exists(known):
            cmd += ["--findings", known]
        procs.append(subprocess.Popen(cmd, stdout=subprocess.PIPE, stderr=subprocess.PIPE, text=True))
    groups = {}
    for pr in procs:
        o, e = pr.communicate()
        for line in o.splitlines():
            if not line.startswith("FOUND"):
                continue
            m = re.match(r"FOUND property=(\S+) clause=(\S+) run=(\d+) step=(\d+) replay=(\S+) detail=(.*)", line)
            if not m:
                continue
            key = (m.group(2), norm(m.group(6)))
            groups.setdefault(key, []).append((int(m.group(4)), m.group(5), m.group(6)))
        for line in e.splitlines():
            if "SETUP-ERROR" in line:
                print(p, line[:300])
    cut = {}
    for w in range(16):
        f = os.path.join(tmp, "w%d.stats.json" % w)
        if os.path.exists(f):
            d = json.load(open(f))
            for k, v in d["cut_short_props"].items():
                cut[k] = cut.get(k, 0) + v
    print("== %s: %d groups; cut short by: %s" % (p, len(groups), cut))
    for (clause, nd), items in sorted(groups.items(), key=lambda kv: -len(kv[1])):
        items.sort()
        step, src, detail = items[0]
        name = "%s-%s-%s.replay" % (p, clause, abs(hash(nd)) % 100000)
        dst = os.path.join(out, name)
        r = subprocess.run([D, "shrink", src, dst], stdout=subprocess.PIPE, stderr=subprocess.PIPE, text=True)
        print("  %5d x %s | %s | %s" % (len(items), clause, detail[:230], name if r.returncode == 0 else "(shrink failed)"))
    shutil.rmtree(tmp, ignore_errors=True)
