#!/bin/bash
# every thorough-tier command once (seed from VERIF_SEED, default 1); prints one status line per check
cd "$(dirname "$0")/.."
for p in C12 C13 C14 C15 C16 C17 C19; do
  t0=$(date +%s)
  out=$(./check $p --tier thorough 2>&1); rc=$?
  echo "$p thorough rc=$rc $(( $(date +%s) - t0 ))s: $(echo "$out" | tail -1)"
  if [ $rc -ne 0 ]; then echo "$out" | grep -E "VIOLATION|REPRODUCED|HARNESS|xq \[|xe \[" | head -8; fi
done
