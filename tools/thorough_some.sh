#!/bin/bash
# thorough tier of the listed properties
cd "$(dirname "$0")/.."
for p in "$@"; do
  t0=$(date +%s)
  out=$(./check $p --tier thorough 2>&1); rc=$?
  echo "$p thorough rc=$rc $(( $(date +%s) - t0 ))s: $(echo "$out" | tail -1)"
  if [ $rc -ne 0 ]; then echo "$out" | grep -E "VIOLATION|REPRODUCED|HARNESS|SETUP|xq \[|xe \[" | head -8; fi
done
